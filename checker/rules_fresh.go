// Rule F "fresh": ownership of letter storage — deep clone, no retention of
// caller buffers, fresh destination. Expressions are classified FRESH /
// ALIAS(receiver|param) / UNKNOWN from their shape plus the definitions of
// locals inside one function.
package main

import (
	"fmt"
	"go/ast"
	"go/token"
	"go/types"
	"sort"
	"strings"

	"golang.org/x/tools/go/packages"
)

type fkind int

const (
	fUnknown fkind = iota
	fFresh
	fAlias
)

func (k fkind) String() string { return [...]string{"UNKNOWN", "FRESH", "ALIAS"}[k] }

func joinKind(a, b fkind) fkind {
	switch {
	case a == b:
		return a
	case a == fAlias || b == fAlias:
		return fAlias
	default:
		return fUnknown
	}
}

type freshFn struct {
	p     *packages.Package
	body  *ast.BlockStmt
	alias map[types.Object]string // receiver and parameters
	busy  map[types.Object]bool
	par   map[ast.Node]ast.Node
}

// inSameObjectBranch: n sits in the then-branch of `if <parameter> == <parameter>`
// (destination and source are one object there: in-place slicing is allowed).
func (f *freshFn) inSameObjectBranch(n ast.Node) bool {
	if f.par == nil {
		f.par = parents(f.body)
	}
	var child ast.Node = n
	for x := f.par[n]; x != nil; child, x = x, f.par[x] {
		var cond ast.Expr
		if ifs, ok := x.(*ast.IfStmt); ok && child == ast.Node(ifs.Body) {
			cond = ifs.Cond
		}
		// or the clause `case dst == src:` of a switch without a tag
		if cc, ok := x.(*ast.CaseClause); ok && len(cc.List) == 1 && child != ast.Node(cc.List[0]) {
			if blk, ok := f.par[x].(*ast.BlockStmt); ok {
				if sw, ok := f.par[blk].(*ast.SwitchStmt); ok && sw.Tag == nil {
					cond = cc.List[0]
				}
			}
		}
		if cond != nil {
			// the condition, or one conjunct of it (case start <= end && dst == src)
			var conjuncts func(e ast.Expr) []ast.Expr
			conjuncts = func(e ast.Expr) []ast.Expr {
				if be, ok := unparen(e).(*ast.BinaryExpr); ok && be.Op == token.LAND {
					return append(conjuncts(be.X), conjuncts(be.Y)...)
				}
				return []ast.Expr{unparen(e)}
			}
			for _, cj := range conjuncts(cond) {
				if be, ok := cj.(*ast.BinaryExpr); ok && be.Op == token.EQL {
					ix, okx := unparen(be.X).(*ast.Ident)
					iy, oky := unparen(be.Y).(*ast.Ident)
					if okx && oky {
						_, ax := f.alias[f.p.TypesInfo.ObjectOf(ix)]
						_, ay := f.alias[f.p.TypesInfo.ObjectOf(iy)]
						if ax && ay {
							return true
						}
					}
				}
			}
		}
	}
	return false
}

func newFreshFn(p *packages.Package, fd *ast.FuncDecl) *freshFn {
	f := &freshFn{p: p, body: fd.Body, alias: map[types.Object]string{}, busy: map[types.Object]bool{}}
	add := func(fl *ast.FieldList, what string) {
		if fl == nil {
			return
		}
		for _, fld := range fl.List {
			for _, n := range fld.Names {
				if o := p.TypesInfo.Defs[n]; o != nil {
					f.alias[o] = what + " " + n.Name
				}
			}
		}
	}
	add(fd.Recv, "receiver")
	add(fd.Type.Params, "parameter")
	return f
}

var freshMethods = map[string]bool{"Make": true, "Clone": true, "CloneAnnotation": true, "New": true, "NewSeq": true, "NewQSeq": true, "Repeat": true}

func isNilExpr(p *packages.Package, e ast.Expr) bool {
	tv, ok := p.TypesInfo.Types[unparen(e)]
	return ok && tv.IsNil()
}

// classify returns the ownership class of e and, for ALIAS, what it aliases.
func (f *freshFn) classify(e ast.Expr) (fkind, string) {
	e = unparen(e)
	switch x := e.(type) {
	case *ast.CompositeLit:
		return fFresh, ""
	case *ast.UnaryExpr:
		if x.Op == token.AND {
			return f.classify(x.X)
		}
	case *ast.StarExpr:
		return f.classify(x.X)
	case *ast.TypeAssertExpr:
		return f.classify(x.X)
	case *ast.IndexExpr:
		return f.classify(x.X)
	case *ast.SliceExpr:
		return f.classify(x.X)
	case *ast.SelectorExpr:
		if s := f.p.TypesInfo.Selections[x]; s != nil && s.Kind() == types.FieldVal {
			k, w := f.classify(x.X)
			if k == fAlias {
				return fAlias, w + "." + x.Sel.Name
			}
			return k, w
		}
		return fUnknown, ""
	case *ast.Ident:
		o := f.p.TypesInfo.ObjectOf(x)
		if o == nil {
			return fUnknown, ""
		}
		if w, ok := f.alias[o]; ok {
			return fAlias, w
		}
		if v, ok := o.(*types.Var); ok && !v.IsField() && v.Parent() != f.p.Types.Scope() {
			return f.classifyLocal(v)
		}
		return fUnknown, ""
	case *ast.CallExpr:
		// conversion
		if tv, ok := f.p.TypesInfo.Types[x.Fun]; ok && tv.IsType() && len(x.Args) == 1 {
			if isNilExpr(f.p, x.Args[0]) {
				return fFresh, ""
			}
			return f.classify(x.Args[0])
		}
		switch o := calleeOf(f.p, x).(type) {
		case *types.Builtin:
			switch o.Name() {
			case "make", "new":
				return fFresh, ""
			case "append":
				if len(x.Args) == 0 {
					return fUnknown, ""
				}
				first := unparen(x.Args[0])
				if isNilExpr(f.p, first) {
					return fFresh, ""
				}
				if cl, ok := first.(*ast.CompositeLit); ok && len(cl.Elts) == 0 {
					return fFresh, ""
				}
				// append(p[:n:n], x...) has no spare capacity to reuse: it reallocates
				// as soon as one element is added (with none it returns p[:n] unchanged)
				if se, ok := first.(*ast.SliceExpr); ok && se.Slice3 && se.Max != nil && len(x.Args) > 1 {
					return fFresh, ""
				}
				return f.classify(first)
			}
		case *types.Func:
			if sel, ok := x.Fun.(*ast.SelectorExpr); ok && o.Type().(*types.Signature).Recv() != nil {
				switch {
				case freshMethods[o.Name()]:
					return fFresh, ""
				case o.Name() == "Append" || o.Name() == "Copy":
					return f.classify(sel.X)
				case o.Name() == "Slice":
					k, w := f.classify(sel.X)
					if k == fAlias && len(x.Args) == 0 {
						return fAlias, w + ".Slice()"
					}
					return k, w
				}
			} else if freshMethods[o.Name()] {
				return fFresh, ""
			}
		}
	}
	return fUnknown, ""
}

// classifyLocal joins the classes of everything assigned to local v.
func (f *freshFn) classifyLocal(v *types.Var) (fkind, string) {
	if f.busy[v] {
		return fFresh, "" // neutral element for self-referential updates (x = append(x, ...))
	}
	f.busy[v] = true
	defer delete(f.busy, v)
	first := true
	var k fkind
	var w string
	acc := func(nk fkind, nw string) {
		if first {
			k, w, first = nk, nw, false
			return
		}
		k = joinKind(k, nk)
		if nk == fAlias {
			w = nw
		}
	}
	ast.Inspect(f.body, func(n ast.Node) bool {
		switch s := n.(type) {
		case *ast.AssignStmt:
			for i, l := range s.Lhs {
				id, ok := l.(*ast.Ident)
				if !ok || f.p.TypesInfo.ObjectOf(id) != v {
					continue
				}
				if f.inSameObjectBranch(s) {
					continue // what is assigned where destination and source are one object may alias it
				}
				if len(s.Rhs) == len(s.Lhs) {
					acc(f.classify(s.Rhs[i]))
				} else if len(s.Rhs) == 1 {
					// tuple: x, ok := y.(T) / call
					if ta, ok := unparen(s.Rhs[0]).(*ast.TypeAssertExpr); ok && i == 0 {
						acc(f.classify(ta.X))
					} else {
						acc(fUnknown, "")
					}
				}
			}
		case *ast.ValueSpec:
			for i, id := range s.Names {
				if f.p.TypesInfo.Defs[id] == v {
					if len(s.Values) == len(s.Names) {
						acc(f.classify(s.Values[i]))
					} else if len(s.Values) == 0 {
						acc(fFresh, "") // zero value
					}
				}
			}
		case *ast.RangeStmt:
			for _, kv := range []ast.Expr{s.Key, s.Value} {
				id, ok := kv.(*ast.Ident)
				if !ok || f.p.TypesInfo.ObjectOf(id) != v {
					continue
				}
				if kv == s.Key {
					acc(fFresh, "") // an index
					continue
				}
				// range value: element of the ranged container
				ck, cw := f.classify(s.X)
				if ck == fFresh {
					acc(f.elementClass(s.X))
				} else {
					acc(ck, cw)
				}
			}
		case *ast.TypeSwitchStmt:
			if as, ok := s.Assign.(*ast.AssignStmt); ok && len(as.Lhs) == 1 {
				// the implicit per-clause objects
				for _, cc := range s.Body.List {
					if f.p.TypesInfo.Implicits[cc] == v {
						if ta, ok := unparen(as.Rhs[0]).(*ast.TypeAssertExpr); ok {
							acc(f.classify(ta.X))
						}
					}
				}
			}
		}
		return true
	})
	if first {
		return fUnknown, ""
	}
	return k, w
}

// elementClass: class of the elements stored into a local container.
func (f *freshFn) elementClass(container ast.Expr) (fkind, string) {
	id, ok := unparen(container).(*ast.Ident)
	if !ok {
		return fUnknown, ""
	}
	v := f.p.TypesInfo.ObjectOf(id)
	first := true
	var k fkind
	var w string
	ast.Inspect(f.body, func(n ast.Node) bool {
		as, ok := n.(*ast.AssignStmt)
		if !ok {
			return true
		}
		for i, l := range as.Lhs {
			ix, ok := unparen(l).(*ast.IndexExpr)
			if !ok {
				continue
			}
			if b, ok := unparen(ix.X).(*ast.Ident); ok && f.p.TypesInfo.ObjectOf(b) == v && len(as.Rhs) == len(as.Lhs) {
				nk, nw := f.classify(as.Rhs[i])
				if first {
					k, w, first = nk, nw, false
				} else {
					k = joinKind(k, nk)
					if nk == fAlias {
						w = nw
					}
				}
			}
		}
		return true
	})
	if first {
		return fUnknown, ""
	}
	return k, w
}

// ---- clonedeep ----------------------------------------------------------------

// hasMutableRef: values of t share mutable storage when copied by value.
// Interface and func typed components are shared by design (alphabet,
// location, consensus function) and exempt by type.
func hasMutableRef(t types.Type, depth int) bool {
	if depth > 6 {
		return false
	}
	switch u := t.Underlying().(type) {
	case *types.Slice, *types.Map, *types.Pointer, *types.Chan:
		return true
	case *types.Array:
		return hasMutableRef(u.Elem(), depth+1)
	case *types.Struct:
		for i := 0; i < u.NumFields(); i++ {
			if hasMutableRef(u.Field(i).Type(), depth+1) {
				return true
			}
		}
	}
	return false
}

type sliceField struct {
	path []string
	typ  types.Type
}

func sliceFields(t types.Type, prefix []string, depth int) []sliceField {
	var out []sliceField
	st, ok := t.Underlying().(*types.Struct)
	if !ok || depth > 3 {
		return nil
	}
	for i := 0; i < st.NumFields(); i++ {
		fl := st.Field(i)
		p := append(append([]string{}, prefix...), fl.Name())
		switch fl.Type().Underlying().(type) {
		case *types.Slice:
			out = append(out, sliceField{p, fl.Type()})
		case *types.Struct:
			out = append(out, sliceFields(fl.Type(), p, depth+1)...)
		}
	}
	return out
}

// ruleCloneDeep checks one Clone method.
func ruleCloneDeep(c *Ctx, rule, short, name string) {
	fd, p := c.decl(short, name)
	fn := p.Types.Name() + "." + name
	f := newFreshFn(p, fd)
	sig := p.TypesInfo.Defs[fd.Name].(*types.Func).Type().(*types.Signature)
	recvT := sig.Recv().Type()
	if pt, ok := recvT.(*types.Pointer); ok {
		recvT = pt.Elem()
	}
	// Shape 1: the clone is built by a constructor call from fresh arguments.
	if len(fd.Body.List) > 0 {
		if ret, ok := fd.Body.List[len(fd.Body.List)-1].(*ast.ReturnStmt); ok && len(ret.Results) == 1 {
			if call, ok := unparen(ret.Results[0]).(*ast.CallExpr); ok {
				if fo, ok := calleeOf(p, call).(*types.Func); ok && (fo.Name() == "NewSeq" || fo.Name() == "NewQSeq") {
					n := 0
					for _, a := range call.Args {
						tv := p.TypesInfo.Types[a]
						if _, isSl := tv.Type.Underlying().(*types.Slice); !isSl {
							continue
						}
						n++
						k, w := f.classify(a)
						key := fmt.Sprintf("%s/%s arg %s", fn, fo.Name(), exprStr(c.Fset, a))
						if k == fFresh {
							c.ok(rule, key, a.Pos(), "the letters handed to the constructor are freshly allocated")
						} else if k == fAlias {
							c.bad(rule, key, a.Pos(), "the clone is built on "+w+": it shares letter storage with the receiver")
						} else {
							c.und(rule, key, a.Pos(), "cannot classify the storage handed to the constructor")
						}
					}
					if n == 0 {
						c.und(rule, fn+"/constructor", call.Pos(), "constructor call without slice arguments")
					}
					return
				}
			}
		}
	}
	// Shape 2: struct copy, then each slice field re-assigned a deep-fresh value.
	// Find the clone variable: the local returned (possibly as &c).
	var cloneObj types.Object
	ast.Inspect(fd.Body, func(n ast.Node) bool {
		if ret, ok := n.(*ast.ReturnStmt); ok && len(ret.Results) == 1 {
			e := unparen(ret.Results[0])
			if u, ok := e.(*ast.UnaryExpr); ok && u.Op == token.AND {
				e = unparen(u.X)
			}
			if id, ok := e.(*ast.Ident); ok {
				cloneObj = p.TypesInfo.ObjectOf(id)
			}
		}
		return true
	})
	if cloneObj == nil {
		c.und(rule, fn+"/shape", fd.Pos(), "Clone does not return a local copy; idiom not understood")
		return
	}
	isCloneField := func(e ast.Expr, path []string) bool {
		// matches c.A.B for path [A B] (embedded fields may be elided)
		for i := len(path) - 1; i >= 0; i-- {
			sel, ok := unparen(e).(*ast.SelectorExpr)
			if !ok || sel.Sel.Name != path[i] {
				return false
			}
			e = sel.X
			if id, ok := unparen(e).(*ast.Ident); ok && p.TypesInfo.ObjectOf(id) == cloneObj {
				return true
			}
		}
		return false
	}
	for _, sf := range sliceFields(recvT, nil, 0) {
		key := fn + "/" + strings.Join(sf.path, ".")
		elem := sf.typ.Underlying().(*types.Slice).Elem()
		_, elemIface := elem.Underlying().(*types.Interface)
		needDeep := hasMutableRef(elem, 0) || elemIface
		// top-level assignment c.F = X
		var assigned ast.Expr
		var assignPos token.Pos
		for _, st := range fd.Body.List {
			if as, ok := st.(*ast.AssignStmt); ok && len(as.Lhs) == len(as.Rhs) {
				for i, l := range as.Lhs {
					if isCloneField(l, sf.path) {
						assigned, assignPos = as.Rhs[i], as.Pos()
					}
				}
			}
		}
		if assigned == nil {
			c.bad(rule, key, fd.Pos(), "the field is only copied by the struct assignment: the clone shares its backing array with the receiver, so a later in-place edit of either (Delete, SetOffset on a row, RevComp of a row) shows through the other")
			continue
		}
		k, w := f.classify(assigned)
		if k == fAlias {
			c.bad(rule, key, assignPos, "the clone's field is assigned "+w+": storage shared with the receiver")
			continue
		}
		if k != fFresh {
			c.und(rule, key, assignPos, "cannot classify "+exprStr(c.Fset, assigned))
			continue
		}
		if !needDeep {
			c.ok(rule, key, assignPos, "assigned a freshly allocated copy ("+exprStr(c.Fset, assigned)+"); elements carry no mutable storage")
			continue
		}
		// elements need fresh values: a top-level range loop storing c.F[i] = fresh
		var elemRhs ast.Expr
		for _, st := range fd.Body.List {
			rs, ok := st.(*ast.RangeStmt)
			if !ok {
				continue
			}
			ast.Inspect(rs.Body, func(n ast.Node) bool {
				as, ok := n.(*ast.AssignStmt)
				if !ok || len(as.Lhs) != len(as.Rhs) {
					return true
				}
				for i, l := range as.Lhs {
					if ix, ok := unparen(l).(*ast.IndexExpr); ok && isCloneField(ix.X, sf.path) {
						if kid, ok := ix.Index.(*ast.Ident); ok && rs.Key != nil {
							if rk, ok := rs.Key.(*ast.Ident); ok && p.TypesInfo.ObjectOf(kid) == p.TypesInfo.ObjectOf(rk) {
								elemRhs = as.Rhs[i]
							}
						}
					}
				}
				return true
			})
		}
		// or the elements are appended one by one to a local that is assigned to the field: cols = append(cols, fresh)
		if id, ok := unparen(assigned).(*ast.Ident); ok && elemRhs == nil {
			local := p.TypesInfo.ObjectOf(id)
			for _, st := range fd.Body.List {
				rs, ok := st.(*ast.RangeStmt)
				if !ok {
					continue
				}
				ast.Inspect(rs.Body, func(n ast.Node) bool {
					as, ok := n.(*ast.AssignStmt)
					if !ok || len(as.Lhs) != 1 || len(as.Rhs) != 1 {
						return true
					}
					l, ok := unparen(as.Lhs[0]).(*ast.Ident)
					if !ok || p.TypesInfo.ObjectOf(l) != local {
						return true
					}
					call, ok := unparen(as.Rhs[0]).(*ast.CallExpr)
					if !ok || len(call.Args) != 2 || call.Ellipsis.IsValid() {
						return true
					}
					if b, ok := calleeOf(p, call).(*types.Builtin); !ok || b.Name() != "append" {
						return true
					}
					if a0, ok := unparen(call.Args[0]).(*ast.Ident); ok && p.TypesInfo.ObjectOf(a0) == local {
						elemRhs = call.Args[1]
					}
					return true
				})
			}
		}
		// or the local is filled by index in a loop: rows[i] = fresh
		if id, ok := unparen(assigned).(*ast.Ident); ok && elemRhs == nil {
			local := p.TypesInfo.ObjectOf(id)
			for _, st := range fd.Body.List {
				var body *ast.BlockStmt
				switch l := st.(type) {
				case *ast.RangeStmt:
					body = l.Body
				case *ast.ForStmt:
					body = l.Body
				}
				if body == nil {
					continue
				}
				ast.Inspect(body, func(n ast.Node) bool {
					as, ok := n.(*ast.AssignStmt)
					if !ok || len(as.Lhs) != len(as.Rhs) {
						return true
					}
					for i, l := range as.Lhs {
						if ix, ok := unparen(l).(*ast.IndexExpr); ok {
							if b, ok := unparen(ix.X).(*ast.Ident); ok && p.TypesInfo.ObjectOf(b) == local {
								elemRhs = as.Rhs[i]
							}
						}
					}
					return true
				})
			}
		}
		// append(nil, ...) of elements that need deep copies is shallow
		if elemRhs == nil {
			if call, ok := unparen(assigned).(*ast.CallExpr); ok {
				if b, ok := calleeOf(p, call).(*types.Builtin); ok && b.Name() == "append" {
					c.bad(rule, key, assignPos, "the outer slice is copied but its elements (which own storage) are shared with the receiver")
					continue
				}
			}
			c.bad(rule, key, assignPos, "a new outer slice is allocated but no loop stores a fresh copy of every element")
			continue
		}
		ek, ew := f.classify(elemRhs)
		switch ek {
		case fFresh:
			c.ok(rule, key, elemRhs.Pos(), "fresh outer slice and every element stored is a fresh copy ("+exprStr(c.Fset, elemRhs)+")")
		case fAlias:
			c.bad(rule, key, elemRhs.Pos(), "elements of the clone are "+ew+": each row/column is shared with the receiver")
		default:
			c.und(rule, key, elemRhs.Pos(), "cannot classify element value "+exprStr(c.Fset, elemRhs))
		}
	}
}

// ---- retain ---------------------------------------------------------------------

type retainer struct {
	c       *Ctx
	summary map[*types.Func]map[int]string // method -> param index -> reason
}

func elemOwnsStorage(t types.Type) bool {
	s, ok := t.Underlying().(*types.Slice)
	if !ok {
		return false
	}
	_, inner := s.Elem().Underlying().(*types.Slice)
	return inner
}

func isSliceT(t types.Type) bool {
	_, ok := t.Underlying().(*types.Slice)
	return ok
}

// receiverStore reports whether lhs denotes receiver storage (a field of the
// receiver, or an element of one).
func receiverStore(f *freshFn, lhs ast.Expr) bool {
	lhs = unparen(lhs)
	switch x := lhs.(type) {
	case *ast.IndexExpr:
		return receiverStore(f, x.X)
	case *ast.SelectorExpr:
		k, w := f.classify(x)
		return k == fAlias && strings.HasPrefix(w, "receiver")
	}
	return false
}

// retained lists (param index, reason, pos) of slice-typed caller values that
// fd stores into receiver storage.
func (r *retainer) retained(p *packages.Package, fd *ast.FuncDecl) map[int][2]string {
	out := map[int][2]string{}
	f := newFreshFn(p, fd)
	paramIdx := map[string]int{}
	i := 0
	if fd.Type.Params != nil {
		for _, fld := range fd.Type.Params.List {
			for _, n := range fld.Names {
				paramIdx["parameter "+n.Name] = i
				i++
			}
		}
	}
	note := func(w string, pos token.Pos, why string) {
		// w is like "parameter a" possibly with suffixes
		for name, idx := range paramIdx {
			if w == name || strings.HasPrefix(w, name+".") || strings.HasPrefix(w, name+"[") {
				if _, ok := out[idx]; !ok {
					out[idx] = [2]string{why, r.c.pos(pos)}
				}
			}
		}
	}
	ast.Inspect(fd.Body, func(n ast.Node) bool {
		as, ok := n.(*ast.AssignStmt)
		if !ok || len(as.Lhs) != len(as.Rhs) {
			return true
		}
		for i, l := range as.Lhs {
			if !receiverStore(f, l) {
				continue
			}
			rhs := unparen(as.Rhs[i])
			tv := p.TypesInfo.Types[rhs]
			// direct store of a caller slice
			if isSliceT(tv.Type) {
				if k, w := f.classify(rhs); k == fAlias && strings.HasPrefix(w, "parameter") {
					if call, isCall := rhs.(*ast.CallExpr); !isCall || !isAppendCall(p, call) {
						note(w, as.Pos(), "stored directly into receiver storage")
					}
				}
			}
			if call, ok := rhs.(*ast.CallExpr); ok && isAppendCall(p, call) {
				for j, a := range call.Args[1:] {
					at := p.TypesInfo.Types[a].Type
					spread := call.Ellipsis.IsValid() && j == len(call.Args)-2
					k, w := f.classify(a)
					if k != fAlias || !strings.HasPrefix(w, "parameter") {
						continue
					}
					if spread && elemOwnsStorage(at) {
						note(w, a.Pos(), "each caller slice is appended as an element of receiver storage (append(..., "+exprStr(r.c.Fset, a)+"...))")
					} else if !spread && isSliceT(at) {
						note(w, a.Pos(), "the caller's slice becomes an element of receiver storage")
					}
				}
			}
		}
		return true
	})
	return out
}

// summaryFor resolves a callee to retention summaries: the method itself
// when the call is static, otherwise every analysed method of that name
// whose receiver implements the interface.
func (r *retainer) summaryFor(fo *types.Func) map[int]string {
	if s, ok := r.summary[fo]; ok {
		return s
	}
	recv := fo.Type().(*types.Signature).Recv()
	if recv == nil {
		return nil
	}
	iface, ok := recv.Type().Underlying().(*types.Interface)
	if !ok {
		return nil
	}
	out := map[int]string{}
	for m, s := range r.summary {
		if m.Name() != fo.Name() {
			continue
		}
		mt := m.Type().(*types.Signature).Recv().Type()
		if types.Implements(mt, iface) || types.Implements(types.NewPointer(mt), iface) {
			for k, v := range s {
				out[k] = v
			}
		}
	}
	return out
}

func isAppendCall(p *packages.Package, call *ast.CallExpr) bool {
	b, ok := calleeOf(p, call).(*types.Builtin)
	return ok && b.Name() == "append" && len(call.Args) >= 1
}

// ruleRetain checks the append methods of the container packages.
func ruleRetain(c *Ctx, rule string, targets [][2]string, summaryPkgs ...string) {
	r := &retainer{c: c, summary: map[*types.Func]map[int]string{}}
	// summaries for every method of the analysed packages
	type methInfo struct {
		p  *packages.Package
		fd *ast.FuncDecl
	}
	for _, short := range summaryPkgs {
		p := c.pkg(short)
		for _, file := range p.Syntax {
			for _, d := range file.Decls {
				fd, ok := d.(*ast.FuncDecl)
				if !ok || fd.Body == nil || fd.Recv == nil {
					continue
				}
				fo, _ := p.TypesInfo.Defs[fd.Name].(*types.Func)
				for idx, why := range r.retained(p, fd) {
					if r.summary[fo] == nil {
						r.summary[fo] = map[int]string{}
					}
					r.summary[fo][idx] = fo.FullName() + ": " + why[0] + " at " + why[1]
				}
			}
		}
	}
	for _, t := range targets {
		fd, p := c.decl(t[0], t[1])
		fn := p.Types.Name() + "." + t[1]
		f := newFreshFn(p, fd)
		key := fn + "/caller-buffers"
		own := r.retained(p, fd)
		if len(own) > 0 {
			var idxs []int
			for i := range own {
				idxs = append(idxs, i)
			}
			sort.Ints(idxs)
			w := own[idxs[0]]
			c.bad(rule, key, fd.Pos(), fmt.Sprintf("parameter #%d is retained: %s (%s); a caller that reuses its buffer rewrites the alignment", idxs[0], w[0], w[1]))
			continue
		}
		// calls passing caller slices or loop-reused buffers to retaining methods
		bad := ""
		var badPos token.Pos
		var loops []ast.Node
		ast.Inspect(fd.Body, func(n ast.Node) bool {
			switch n.(type) {
			case *ast.ForStmt, *ast.RangeStmt:
				loops = append(loops, n)
			}
			return true
		})
		inLoop := func(pos token.Pos) ast.Node {
			var inner ast.Node
			for _, l := range loops {
				var body *ast.BlockStmt
				switch l := l.(type) {
				case *ast.ForStmt:
					body = l.Body
				case *ast.RangeStmt:
					body = l.Body
				}
				if body.Pos() <= pos && pos < body.End() {
					inner = l
				}
			}
			return inner
		}
		ast.Inspect(fd.Body, func(n ast.Node) bool {
			call, ok := n.(*ast.CallExpr)
			if !ok {
				return true
			}
			if _, ok := call.Fun.(*ast.SelectorExpr); !ok {
				return true
			}
			fo, isM := calleeOf(p, call).(*types.Func)
			if !isM {
				return true
			}
			sum := r.summaryFor(fo)
			if len(sum) == 0 {
				return true
			}
			for idx, why := range sum {
				// variadic: all args from idx on map to parameter idx
				for ai, a := range call.Args {
					if ai < idx {
						continue
					}
					if !isSliceT(p.TypesInfo.Types[a].Type) {
						continue
					}
					k, w := f.classify(a)
					if k == fAlias && strings.HasPrefix(w, "parameter") {
						bad, badPos = "passes "+w+" to a method that retains it ("+why+")", a.Pos()
					} else if k == fFresh {
						// loop-reused buffer: declared outside the body of the loop the call is in
						if id, ok := unparen(a).(*ast.Ident); ok {
							if l := inLoop(call.Pos()); l != nil {
								o := p.TypesInfo.ObjectOf(id)
								var body *ast.BlockStmt
								switch l := l.(type) {
								case *ast.ForStmt:
									body = l.Body
								case *ast.RangeStmt:
									body = l.Body
								}
								if o != nil && !(body.Pos() <= o.Pos() && o.Pos() < body.End()) {
									bad, badPos = "passes the loop-reused buffer "+id.Name+" to a method that retains it ("+why+"): every appended column aliases one buffer", a.Pos()
								}
							}
						}
					}
				}
			}
			return true
		})
		if bad != "" {
			c.bad(rule, key, badPos, bad)
		} else {
			c.ok(rule, key, fd.Pos(), "no caller slice (nor a loop-reused scratch buffer) is stored into the receiver, directly or through a retaining method")
		}
	}
}

// ---- freshdst --------------------------------------------------------------------

// ruleFreshDst: the argument of every SetSlice in the sequtils functions is
// FRESH unless the call sits in the then-branch of `dst == src`.
func ruleFreshDst(c *Ctx, rule string, names ...string) {
	_, p := c.decl("seq/sequtils", names[0])
	decls := map[types.Object]*ast.FuncDecl{}
	for _, file := range p.Syntax {
		for _, d := range file.Decls {
			if fd, ok := d.(*ast.FuncDecl); ok && fd.Body != nil {
				decls[p.TypesInfo.Defs[fd.Name]] = fd
			}
		}
	}
	// wrappers: private helpers that install one of their parameters in another (x.SetSlice(y)); a call of
	// one is an installation of the corresponding argument
	type wrap struct{ dst, val int }
	wrappers := map[types.Object]wrap{}
	for o, fd := range decls {
		if fd.Recv != nil || fd.Name.IsExported() {
			continue
		}
		idx := map[types.Object]int{}
		i := 0
		for _, fl := range fd.Type.Params.List {
			for _, nm := range fl.Names {
				idx[p.TypesInfo.Defs[nm]] = i
				i++
			}
		}
		ast.Inspect(fd.Body, func(x ast.Node) bool {
			if call, ok := x.(*ast.CallExpr); ok {
				if sel, ok := call.Fun.(*ast.SelectorExpr); ok && sel.Sel.Name == "SetSlice" && len(call.Args) == 1 {
					rid, ok1 := unparen(sel.X).(*ast.Ident)
					aid, ok2 := unparen(call.Args[0]).(*ast.Ident)
					if ok1 && ok2 {
						di, okd := idx[p.TypesInfo.ObjectOf(rid)]
						vi, okv := idx[p.TypesInfo.ObjectOf(aid)]
						if okd && okv {
							wrappers[o] = wrap{di, vi}
						}
					}
				}
			}
			return true
		})
	}
	// targets: the named operations and the private helpers they reach (other than wrappers)
	var targets []*ast.FuncDecl
	seen := map[*ast.FuncDecl]bool{}
	var reach func(fd *ast.FuncDecl)
	reach = func(fd *ast.FuncDecl) {
		if seen[fd] {
			return
		}
		seen[fd] = true
		targets = append(targets, fd)
		ast.Inspect(fd.Body, func(x ast.Node) bool {
			if call, ok := x.(*ast.CallExpr); ok {
				if o, ok := calleeOf(p, call).(*types.Func); ok {
					if h := decls[o]; h != nil && !h.Name.IsExported() && h.Recv == nil {
						if _, isW := wrappers[o]; !isW {
							reach(h)
						}
					}
				}
			}
			return true
		})
	}
	var roots []*ast.FuncDecl
	for _, name := range names {
		fd, _ := c.decl("seq/sequtils", name)
		roots = append(roots, fd)
		reach(fd)
	}
	isRoot := func(fd *ast.FuncDecl) bool {
		for _, r := range roots {
			if r == fd {
				return true
			}
		}
		return false
	}
	// copyUnlessSame: v := src's letters; if dst != src { v = a fresh copy }: what is handed on is fresh
	// whenever destination and source differ.
	copyUnlessSame := func(cf *freshFn, body *ast.BlockStmt, arg ast.Expr, before token.Pos) bool {
		id, ok := unparen(arg).(*ast.Ident)
		if !ok || p.TypesInfo.Uses[id] == nil {
			return false
		}
		found := false
		ast.Inspect(body, func(y ast.Node) bool {
			ifs, ok := y.(*ast.IfStmt)
			if !ok || ifs.Else != nil || ifs.End() > before {
				return true
			}
			be, ok := unparen(ifs.Cond).(*ast.BinaryExpr)
			if !ok || be.Op != token.NEQ {
				return true
			}
			_, w1 := cf.classify(be.X)
			_, w2 := cf.classify(be.Y)
			if !strings.HasPrefix(w1, "parameter") || !strings.HasPrefix(w2, "parameter") {
				return true
			}
			for _, st := range ifs.Body.List {
				as, ok := st.(*ast.AssignStmt)
				if !ok || as.Tok != token.ASSIGN || len(as.Lhs) != 1 || len(as.Rhs) != 1 {
					continue
				}
				if l, ok := as.Lhs[0].(*ast.Ident); ok && p.TypesInfo.Uses[l] == p.TypesInfo.Uses[id] {
					if rk, _ := cf.classify(as.Rhs[0]); rk == fFresh {
						found = true
					}
				}
			}
			return true
		})
		return found
	}
	for _, fd := range targets {
		name := fd.Name.Name
		f := newFreshFn(p, fd)
		par := parents(fd.Body)
		n := 0
		type inst struct {
			call *ast.CallExpr
			dst  ast.Expr
			val  ast.Expr
		}
		var calls []inst
		ast.Inspect(fd.Body, func(x ast.Node) bool {
			if call, ok := x.(*ast.CallExpr); ok {
				if sel, ok := call.Fun.(*ast.SelectorExpr); ok && sel.Sel.Name == "SetSlice" && len(call.Args) == 1 {
					if _, isM := calleeOf(p, call).(*types.Func); isM {
						calls = append(calls, inst{call, sel.X, call.Args[0]})
					}
				} else if o, ok := calleeOf(p, call).(*types.Func); ok {
					if w, isW := wrappers[o]; isW && w.dst < len(call.Args) && w.val < len(call.Args) {
						calls = append(calls, inst{call, call.Args[w.dst], call.Args[w.val]})
					}
				}
			}
			return true
		})
		for _, in := range calls {
			call := in.call
			n++
			key := fmt.Sprintf("sequtils.%s/%s.SetSlice#%d", name, exprStr(c.Fset, in.dst), n)
			// inside `if dst == src { ... }` ?
			same := false
			var child ast.Node = call
			for x := par[call]; x != nil; child, x = x, par[x] {
				if ifs, ok := x.(*ast.IfStmt); ok && child == ast.Node(ifs.Body) {
					if be, ok := unparen(ifs.Cond).(*ast.BinaryExpr); ok && be.Op == token.EQL {
						_, w1 := f.classify(be.X)
						_, w2 := f.classify(be.Y)
						if strings.HasPrefix(w1, "parameter") && strings.HasPrefix(w2, "parameter") {
							same = true
						}
					}
				}
			}
			k, w := f.classify(in.val)
			if k == fAlias && copyUnlessSame(f, fd.Body, in.val, call.Pos()) {
				k, w = fFresh, ""
			}
			// in a private helper the installed value may be one of the helper's own parameters: what the
			// callers hand in decides
			if k == fAlias && strings.HasPrefix(w, "parameter ") && !isRoot(fd) {
				pname := strings.TrimPrefix(w, "parameter ")
				pidx, i := -1, 0
				for _, fl := range fd.Type.Params.List {
					for _, nm := range fl.Names {
						if nm.Name == pname {
							pidx = i
						}
						i++
					}
				}
				self := p.TypesInfo.Defs[fd.Name]
				sites, allFresh, aliasW := 0, true, ""
				for _, caller := range targets {
					if caller == fd {
						continue
					}
					cf := newFreshFn(p, caller)
					ast.Inspect(caller.Body, func(x ast.Node) bool {
						cc, ok := x.(*ast.CallExpr)
						if !ok || calleeOf(p, cc) != self || pidx < 0 || pidx >= len(cc.Args) {
							return true
						}
						sites++
						ck, cw := cf.classify(cc.Args[pidx])
						if ck == fAlias && copyUnlessSame(cf, caller.Body, cc.Args[pidx], cc.Pos()) {
							ck = fFresh
						}
						if ck != fFresh {
							allFresh = false
							if ck == fAlias {
								aliasW = cw
							}
						}
						return true
					})
				}
				if sites > 0 && allFresh {
					k, w = fFresh, ""
				} else if aliasW != "" {
					w = aliasW + " (handed to " + name + ")"
				}
			}
			switch {
			case same:
				c.triv(rule, key, call.Pos(), "destination and source are the same object on this branch: in-place slicing allowed")
			case k == fFresh:
				c.ok(rule, key, call.Pos(), "installs newly allocated storage ("+exprStr(c.Fset, in.val)+")")
			case k == fAlias:
				c.bad(rule, key, call.Pos(), "installs "+w+" in the destination while destination and source may differ: the result shares storage with the source (and reversing it rewrites the source)")
			default:
				c.und(rule, key, call.Pos(), "cannot classify "+exprStr(c.Fset, in.val))
			}
		}
		if n == 0 && isRoot(fd) {
			// the operation may install its result through a private helper that was analysed as a target of its own
			viaHelper := false
			ast.Inspect(fd.Body, func(x ast.Node) bool {
				if call, ok := x.(*ast.CallExpr); ok {
					if o, ok := calleeOf(p, call).(*types.Func); ok {
						if h := decls[o]; h != nil && seen[h] && h != fd {
							viaHelper = true
						}
					}
				}
				return true
			})
			if !viaHelper {
				c.und(rule, "sequtils."+name+"/SetSlice", fd.Pos(), "no SetSlice call found")
			}
		}
	}
}

// ---- periter: storage installed inside a loop is allocated in that iteration ------

// sharedRoot reports the loop-external buffer that e is carved from, if any:
// a 2-index sub-slice of (or an append onto a 2-index sub-slice of) a local
// that lives across iterations. Columns/rows carved that way overlap in
// their spare capacity, so a later append to one overwrites its neighbour.
func (f *freshFn) sharedRoot(e ast.Expr, body *ast.BlockStmt, depth int) string {
	if depth > 6 {
		return ""
	}
	e = unparen(e)
	switch x := e.(type) {
	case *ast.SliceExpr:
		if x.Slice3 && x.Max != nil {
			return ""
		}
		if r := f.sharedRoot(x.X, body, depth+1); r != "" {
			return r
		}
		if id, ok := unparen(x.X).(*ast.Ident); ok {
			if o := f.p.TypesInfo.ObjectOf(id); o != nil && !(body.Pos() <= o.Pos() && o.Pos() < body.End()) {
				if _, isParam := f.alias[o]; !isParam {
					return id.Name
				}
			}
		}
		return ""
	case *ast.Ident:
		o := f.p.TypesInfo.ObjectOf(x)
		v, ok := o.(*types.Var)
		if !ok || v.IsField() {
			return ""
		}
		if !(body.Pos() <= v.Pos() && v.Pos() < body.End()) {
			return "" // a whole buffer, not a carved piece; handled by the retention rule
		}
		// declared in the loop body: look at its definitions there
		res := ""
		ast.Inspect(body, func(n ast.Node) bool {
			as, ok := n.(*ast.AssignStmt)
			if !ok {
				return true
			}
			for i, l := range as.Lhs {
				if id, ok := l.(*ast.Ident); ok && f.p.TypesInfo.ObjectOf(id) == o && len(as.Rhs) == len(as.Lhs) {
					if r := f.sharedRoot(as.Rhs[i], body, depth+1); r != "" {
						res = r
					}
				}
			}
			return true
		})
		return res
	case *ast.CallExpr:
		if tv, ok := f.p.TypesInfo.Types[x.Fun]; ok && tv.IsType() && len(x.Args) == 1 {
			return f.sharedRoot(x.Args[0], body, depth+1)
		}
		if b, ok := calleeOf(f.p, x).(*types.Builtin); ok && b.Name() == "append" && len(x.Args) > 0 {
			return f.sharedRoot(x.Args[0], body, depth+1)
		}
	}
	return ""
}

// rulePerIter checks the named method.
func rulePerIter(c *Ctx, rule, short, name string) {
	fd, p := c.decl(short, name)
	fn := p.Types.Name() + "." + name
	f := newFreshFn(p, fd)
	n := 0
	var visit func(node ast.Node, body *ast.BlockStmt)
	visit = func(node ast.Node, body *ast.BlockStmt) {
		ast.Inspect(node, func(x ast.Node) bool {
			switch s := x.(type) {
			case *ast.ForStmt:
				if ast.Node(s) != node {
					visit(s.Body, s.Body)
					return false
				}
			case *ast.RangeStmt:
				if ast.Node(s) != node {
					visit(s.Body, s.Body)
					return false
				}
			case *ast.AssignStmt:
				if body == nil || len(s.Lhs) != len(s.Rhs) {
					return true
				}
				for i, l := range s.Lhs {
					if !receiverStore(f, l) {
						continue
					}
					var elems []ast.Expr
					if call, ok := unparen(s.Rhs[i]).(*ast.CallExpr); ok && isAppendCall(p, call) {
						if !call.Ellipsis.IsValid() {
							elems = call.Args[1:]
						}
					} else if _, isIdx := unparen(l).(*ast.IndexExpr); isIdx {
						elems = []ast.Expr{s.Rhs[i]}
					}
					for _, el := range elems {
						if !isSliceT(p.TypesInfo.Types[el].Type) {
							continue
						}
						n++
						key := fmt.Sprintf("%s/installed-slice#%d", fn, n)
						if r := f.sharedRoot(el, body, 0); r != "" {
							c.bad(rule, key, el.Pos(), "the slice installed in the receiver in each iteration is carved from the loop-external buffer "+r+" without a capacity bound: consecutive pieces overlap in their spare capacity, so a later append to one (Add of a row, AppendColumns) overwrites the start of the next")
						} else {
							c.ok(rule, key, el.Pos(), "allocated in the iteration that installs it")
						}
					}
				}
			case *ast.CallExpr:
				if body == nil {
					return true
				}
				if sel, ok := s.Fun.(*ast.SelectorExpr); ok && sel.Sel.Name == "SetSlice" && len(s.Args) == 1 {
					if _, isM := calleeOf(p, s).(*types.Func); isM {
						n++
						key := fmt.Sprintf("%s/SetSlice#%d", fn, n)
						if r := f.sharedRoot(s.Args[0], body, 0); r != "" {
							c.bad(rule, key, s.Pos(), "each row is given storage appended onto a prefix of the loop-external buffer "+r+": rows that fit in its capacity are written into the same array (they alias each other) and later rows find earlier rows' letters where the fill letter should be")
						} else {
							c.ok(rule, key, s.Pos(), "the row's new storage is allocated in this iteration")
						}
					}
				}
			}
			return true
		})
	}
	visit(fd.Body, nil)
	if n == 0 {
		c.triv(rule, fn+"/no-install-in-loop", fd.Pos(), "the method installs no slice in a loop")
	}
}
