package main

import (
	"go/ast"
	"go/types"

	"golang.org/x/tools/go/cfg"
	"golang.org/x/tools/go/packages"
)

// newCFG builds the control-flow graph of a function body; calls of the
// builtin panic (and os.Exit, log.Fatal*) do not return.
func newCFG(p *packages.Package, body *ast.BlockStmt) *cfg.CFG {
	return cfg.New(body, func(call *ast.CallExpr) bool {
		switch o := calleeOf(p, call).(type) {
		case *types.Builtin:
			return o.Name() != "panic"
		case *types.Func:
			if o.Pkg() != nil && o.Pkg().Path() == "os" && o.Name() == "Exit" {
				return false
			}
			if o.Pkg() != nil && o.Pkg().Path() == "log" && (o.Name() == "Fatal" || o.Name() == "Fatalf" || o.Name() == "Fatalln" || o.Name() == "Panic" || o.Name() == "Panicf") {
				return false
			}
		}
		return true
	})
}

// parents maps every node below root to its parent.
func parents(root ast.Node) map[ast.Node]ast.Node {
	m := map[ast.Node]ast.Node{}
	var stack []ast.Node
	ast.Inspect(root, func(n ast.Node) bool {
		if n == nil {
			stack = stack[:len(stack)-1]
			return true
		}
		if len(stack) > 0 {
			m[n] = stack[len(stack)-1]
		}
		stack = append(stack, n)
		return true
	})
	return m
}

// isErrNotNil recognises `x != nil` with x of type error.
func isErrNotNil(p *packages.Package, e ast.Expr) bool {
	be, ok := unparen(e).(*ast.BinaryExpr)
	if !ok || be.Op.String() != "!=" {
		return false
	}
	isNil := func(x ast.Expr) bool {
		id, ok := unparen(x).(*ast.Ident)
		return ok && id.Name == "nil" && p.TypesInfo.Uses[id] == types.Universe.Lookup("nil")
	}
	isErr := func(x ast.Expr) bool {
		tv, ok := p.TypesInfo.Types[x]
		return ok && types.Identical(tv.Type, types.Universe.Lookup("error").Type())
	}
	return (isNil(be.Y) && isErr(be.X)) || (isNil(be.X) && isErr(be.Y))
}

// inErrBranch: n lies in the then-branch of an `if err != nil`.
func inErrBranch(p *packages.Package, par map[ast.Node]ast.Node, n ast.Node, stop ast.Node) bool {
	child := n
	for x := par[n]; x != nil && x != stop; child, x = x, par[x] {
		if ifs, ok := x.(*ast.IfStmt); ok && child == ast.Node(ifs.Body) && isErrNotNil(p, ifs.Cond) {
			return true
		}
	}
	return false
}
