package main

// Benign rewrites for the rules added after the fifth round of seeded
// changes (their fault direction is exercised by replaying the R5-* changes).
func init() {
	const (
		fasta  = "io/seqio/fasta/fasta.go"
		gff    = "io/featio/gff/gff.go"
		multi  = "seq/multi/multi.go"
		aln    = "seq/alignment/alignment.go"
		alph   = "alphabet/alphabet.go"
		lett   = "alphabet/letters.go"
		filt   = "align/pals/filter/filter.go"
		kernel = "align/pals/dp/kernel.go"
		piler  = "align/pals/piler.go"
		gene   = "feat/gene/gene.go"
	)
	add := func(prop string, vs ...variant) { selftests[prop] = append(selftests[prop], vs...) }

	add("C03",
		variant{Name: "benign-fasta-trimmed-view-with-reset", File: fasta, Find: "\t\tline = bytes.TrimSpace(line)\n\t\tif len(line) == 0 {\n\t\t\tcontinue\n\t\t}\n", Replace: "\t\ttext := bytes.TrimSpace(line)\n\t\tif len(text) == 0 {\n\t\t\tline = line[:0]\n\t\t\tcontinue\n\t\t}\n\t\tline = text\n"},
		variant{Name: "fasta-blank-line-keeps-accumulator", File: fasta, Find: "\t\tline = bytes.TrimSpace(line)\n\t\tif len(line) == 0 {\n\t\t\tcontinue\n\t\t}\n", Replace: "\t\ttext := bytes.TrimSpace(line)\n\t\tif len(text) == 0 {\n\t\t\tcontinue\n\t\t}\n\t\tline = text\n", Rule: "eofspin", Key: "fasta.(*Reader).Read/ReadLine/end-of-input-progress"},
		variant{Name: "benign-gff-first-byte-first", File: gff, Find: "\t\t} else if bytes.HasPrefix(line, []byte(\"##\")) {\n\t\t\tf, err = r.commentMetaline(line[2:])\n\t\t\treturn\n\t\t} else if line[0] != '#' { // ignore comments\n\t\t\tbreak\n\t\t}\n", Replace: "\t\t} else if line[0] != '#' {\n\t\t\tbreak\n\t\t} else if len(line) > 1 && line[1] == '#' {\n\t\t\tf, err = r.commentMetaline(line[2:])\n\t\t\treturn\n\t\t}\n"},
	)
	add("C05",
		variant{Name: "benign-revcomp-rows-by-count", File: aln, Find: "\tfor ; i < j; i, j = i+1, j-1 {\n\t\tfor r := range rs[i] {\n\t\t\trs[i][r], rs[j][r] = comp[rs[j][r]], comp[rs[i][r]]\n\t\t}\n\t}\n", Replace: "\tfor ; i < j; i, j = i+1, j-1 {\n\t\tfor r := 0; r < s.Rows(); r++ {\n\t\t\trs[i][r], rs[j][r] = comp[rs[j][r]], comp[rs[i][r]]\n\t\t}\n\t}\n"},
	)
	add("C07",
		variant{Name: "benign-end-fold-from-first-row", File: multi, Find: "\tend := util.MinInt\n\tfor _, m := range m.Seq {\n\t\tif rt := m.End(); rt > end {\n\t\t\tend = rt\n\t\t}\n\t}\n", Replace: "\tif len(m.Seq) == 0 {\n\t\treturn util.MinInt\n\t}\n\tend := m.Seq[0].End()\n\tfor _, r := range m.Seq[1:] {\n\t\tif rt := r.End(); rt > end {\n\t\t\tend = rt\n\t\t}\n\t}\n"},
	)
	add("C14",
		variant{Name: "benign-slot-in-a-local", File: filt, Find: "func (f *Filter) hitTube(tubeIndex, q int) error {\n\ttube := &f.tubes[tubeIndex%cap(f.tubes)]\n", Replace: "func (f *Filter) hitTube(tubeIndex, q int) error {\n\tslot := tubeIndex % cap(f.tubes)\n\ttube := &f.tubes[slot]\n"},
	)
	add("C15",
		variant{Name: "benign-intersection-by-max-and-min", File: kernel, Find: "\t\t\t\tif trap.Left < k.highEnd.LowDiagonal {\n\t\t\t\t\tcoverageA = k.highEnd.LowDiagonal\n\t\t\t\t} else {\n\t\t\t\t\tcoverageA = trap.Left\n\t\t\t\t}\n\t\t\t\tif trap.Right > k.highEnd.HighDiagonal {\n\t\t\t\t\tcoverageB = k.highEnd.HighDiagonal\n\t\t\t\t} else {\n\t\t\t\t\tcoverageB = trap.Right\n\t\t\t\t}\n", Replace: "\t\t\t\tcoverageA = util.Max(trap.Left, k.highEnd.LowDiagonal)\n\t\t\t\tcoverageB = util.Min(trap.Right, k.highEnd.HighDiagonal)\n",
			More: []edit{{kernel, "\t\"github.com/biogo/biogo/seq/linear\"\n", "\t\"github.com/biogo/biogo/seq/linear\"\n\t\"github.com/biogo/biogo/util\"\n"}}},
	)
	add("C16",
		variant{Name: "benign-unfiltered-piles-copied", File: piler, Find: "\t\t\tpa := e.(*pileInterval)\n\t\t\tpa.pile.Images = pa.pile.Images[:0]\n\t\t\tfor _, im := range pa.images {\n\t\t\t\tif f != nil && !f(im.Pair) {", Replace: "\t\t\tpa := e.(*pileInterval)\n\t\t\tif f == nil && !checkSanity {\n\t\t\t\tpa.pile.Images = append(pa.pile.Images[:0], pa.images...)\n\t\t\t\tpiles = append(piles, pa.pile)\n\t\t\t\treturn\n\t\t\t}\n\t\t\tpa.pile.Images = pa.pile.Images[:0]\n\t\t\tfor _, im := range pa.images {\n\t\t\t\tif f != nil && !f(im.Pair) {"},
	)
	add("C17",
		variant{Name: "benign-ascii-check-in-helper", File: alph, Find: "\tcr := []rune(c)\n\tfor i, v := range s {\n\t\tif v < 0 || cr[i] < 0 || v > unicode.MaxASCII || cr[i] > unicode.MaxASCII {\n\t\t\treturn nil, errors.New(\"alphabet: pairing definition contains non-ASCII rune\")\n\t\t}\n", Replace: "\tif !allASCII(s) || !allASCII(c) {\n\t\treturn nil, errors.New(\"alphabet: pairing definition contains non-ASCII rune\")\n\t}\n\tcr := []rune(c)\n\tfor i, v := range s {\n",
			More: []edit{{alph, "// NewPairing create a new Pairing from a pair of strings.", "func allASCII(s string) bool {\n\tfor i := 0; i < len(s); i++ {\n\t\tif s[i] > unicode.MaxASCII {\n\t\t\treturn false\n\t\t}\n\t}\n\treturn true\n}\n\n// NewPairing create a new Pairing from a pair of strings."}}},
	)
	add("C18",
		variant{Name: "benign-ephred-saturating-return", File: lett, Find: "\tif Q > 254 {\n\t\tQ = 254\n\t}\n\treturn Qphred(Q)\n}\n\n// ProbE returns the error probability for the receiver's Phred value.", Replace: "\tif Q > 254 {\n\t\treturn 254\n\t}\n\treturn Qphred(Q)\n}\n\n// ProbE returns the error probability for the receiver's Phred value."},
	)
	add("C20",
		variant{Name: "benign-introns-over-tail-slice", File: gene, Find: "\tfor i := 1; i < s.Len(); i++ {\n\t\tintron := Intron{\n\t\t\tTranscript: s[i].Transcript,\n\t\t\tOffset:     s[i-1].End(),\n\t\t\tLength:     s[i].Start() - s[i-1].End(),\n\t\t}\n\t\tintrons = append(introns, intron)\n\t}\n", Replace: "\tend := s[0].End()\n\tfor _, e := range s[1:] {\n\t\tintrons = append(introns, Intron{Transcript: e.Transcript, Offset: end, Length: e.Start() - end})\n\t\tend = e.End()\n\t}\n"},
		variant{Name: "benign-locations-against-first-exon", File: gene, Find: "\t\tif i != 0 && e.Location() != newSlice[i-1].Location() {\n", Replace: "\t\tif i != 0 && newSlice[i].Location() != newSlice[0].Location() {\n"},
	)
}
