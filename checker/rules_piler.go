// Rules for C16 (piler): structural necessary conditions of "every added
// feature appears in exactly one pile" and "a pair added twice, in either
// orientation, is rejected".
package main

import (
	"fmt"
	"go/token"
	"go/types"
	"sort"

	"golang.org/x/tools/go/ssa"
)

const palsPkg = modPath + "/align/pals"

func treeCall(ins ssa.Instruction, name string) *ssa.Call {
	call, ok := ins.(*ssa.Call)
	if !ok {
		return nil
	}
	g := call.Call.StaticCallee()
	if g == nil || g.Name() != name || g.Signature.Recv() == nil || !isNamed(g.Signature.Recv().Type(), "github.com/biogo/store/interval", "IntTree") {
		return nil
	}
	return call
}

// rulePileMerge: Piler.merge conserves features. Every interval matched by
// the tree query (i) is collected, (ii) hands its images over to the merged
// interval, (iii) is deleted from the tree; then the merged interval is
// inserted into the same tree.
func rulePileMerge(c *Ctx, rule string) {
	merge := c.fn("align/pals", "(*Piler).merge")
	var query, insert *ssa.Call
	var deletes []*ssa.Call
	viaGet := false
	for _, b := range merge.Blocks {
		for _, ins := range b.Instrs {
			if x := treeCall(ins, "DoMatching"); x != nil {
				query = x
			}
			// the matches may also be fetched as a slice (t.Get(q)) and absorbed in a plain loop
			if x := treeCall(ins, "Get"); x != nil && query == nil {
				query, viaGet = x, true
			}
			if x := treeCall(ins, "Insert"); x != nil {
				insert = x
			}
			if x := treeCall(ins, "Delete"); x != nil {
				deletes = append(deletes, x)
			}
		}
	}
	if query == nil {
		c.und(rule, "pals.(*Piler).merge/query", merge.Pos(), "merge does not query the interval tree with DoMatching or Get")
		return
	}
	// the callback
	var cb *ssa.Function
	var e *ssa.Parameter
	if viaGet {
		cb = merge
	} else {
		if ct, ok := query.Call.Args[1].(*ssa.ChangeType); ok {
			if mc, ok := ct.X.(*ssa.MakeClosure); ok {
				cb, _ = mc.Fn.(*ssa.Function)
			}
		} else if mc, ok := query.Call.Args[1].(*ssa.MakeClosure); ok {
			cb, _ = mc.Fn.(*ssa.Function)
		}
		if cb == nil || len(cb.Params) != 1 {
			c.und(rule, "pals.(*Piler).merge/callback", query.Pos(), "the DoMatching callback is not a function literal of one parameter")
			return
		}
		e = cb.Params[0]
	}
	// the callback may only collect the matches into a captured list that merge walks afterwards
	// (matched = append(matched, e.(*pileInterval))): that list's variable in merge
	var matchList *ssa.Alloc
	isMatchList := func(v ssa.Value) bool {
		ld, ok := v.(*ssa.UnOp)
		return ok && ld.Op == token.MUL && matchList != nil && ld.X == ssa.Value(matchList)
	}
	var derivedFromE func(v ssa.Value) bool
	derivedFromE = func(v ssa.Value) bool {
		for i := 0; i < 6; i++ {
			switch x := v.(type) {
			case *ssa.Parameter:
				return e != nil && x == e
			case *ssa.TypeAssert:
				v = x.X
			case *ssa.UnOp:
				// an element of the slice of matches
				if ia, ok := x.X.(*ssa.IndexAddr); ok && viaGet && ia.X == ssa.Value(query) {
					return true
				}
				if ia, ok := x.X.(*ssa.IndexAddr); ok && isMatchList(ia.X) {
					return true
				}
				v = x.X
			case *ssa.FieldAddr:
				v = x.X
			case *ssa.ChangeInterface:
				v = x.X
			case *ssa.MakeInterface:
				v = x.X
			default:
				return false
			}
		}
		return false
	}
	collected, imagesMoved, startUpd, endUpd := false, false, false, false
	endFirstOnly := false
	// firstOnly: the block runs only under a flag variable (a boolean held in
	// a captured or local variable) or for the first element of a list: the
	// idiom of "the first match", right for the start (matches arrive in
	// ascending order of start), wrong for the end.
	firstOnly := func(b *ssa.BasicBlock) bool {
		for _, f := range branchesAtAny(b) {
			v := f.cond
			if u, ok := v.(*ssa.UnOp); ok && u.Op == token.NOT {
				v = u.X
			}
			if u, ok := v.(*ssa.UnOp); ok && u.Op == token.MUL {
				switch u.X.(type) {
				case *ssa.FreeVar, *ssa.Alloc:
					if bt, ok := u.Type().Underlying().(*types.Basic); ok && bt.Kind() == types.Bool {
						return true
					}
				}
			}
			if bo, ok := v.(*ssa.BinOp); ok && (bo.Op == token.EQL || bo.Op == token.NEQ) {
				if k, ok := bo.Y.(*ssa.Const); ok && k.Value != nil && k.Int64() == 0 {
					if _, ok := bo.X.(*ssa.Phi); ok {
						return true
					}
				}
			}
		}
		return false
	}
	scan := []*ssa.Function{cb}
	if !viaGet {
		for _, b := range cb.Blocks {
			for _, ins := range b.Instrs {
				st, ok := ins.(*ssa.Store)
				if !ok {
					continue
				}
				fv, ok := st.Addr.(*ssa.FreeVar)
				if !ok {
					continue
				}
				call, ok := st.Val.(*ssa.Call)
				if !ok {
					continue
				}
				bi, ok := call.Call.Value.(*ssa.Builtin)
				if !ok || bi.Name() != "append" || len(call.Call.Args) != 2 {
					continue
				}
				sl, ok := call.Call.Args[1].(*ssa.Slice)
				if !ok {
					continue
				}
				holdsE := false
				if a, ok := sl.X.(*ssa.Alloc); ok {
					for _, r := range *a.Referrers() {
						if ia, ok := r.(*ssa.IndexAddr); ok {
							for _, rr := range *ia.Referrers() {
								if s2, ok := rr.(*ssa.Store); ok && derivedFromE(s2.Val) {
									holdsE = true
								}
							}
						}
					}
				}
				if !holdsE {
					continue
				}
				// the variable the closure captured
				for _, mb := range merge.Blocks {
					for _, mi := range mb.Instrs {
						if mc, ok := mi.(*ssa.MakeClosure); ok && mc.Fn == ssa.Value(cb) {
							for i, bv := range mc.Bindings {
								if i < len(cb.FreeVars) && cb.FreeVars[i] == fv {
									if al, ok := bv.(*ssa.Alloc); ok {
										matchList = al
									}
								}
							}
						}
					}
				}
			}
		}
		if matchList != nil {
			scan = append(scan, merge)
		}
	}
	for _, sf := range scan {
		for _, b := range sf.Blocks {
			for _, ins := range b.Instrs {
				st, ok := ins.(*ssa.Store)
				if !ok {
					continue
				}
				// r = append(r, e)
				if call, ok := st.Val.(*ssa.Call); ok {
					if bi, ok := call.Call.Value.(*ssa.Builtin); ok && bi.Name() == "append" && len(call.Call.Args) == 2 {
						// the appended values: a slice literal holding e, or a spread of iv.images
						src := call.Call.Args[1]
						if name, ok := fieldOfAny(st.Addr); ok && name == "images" {
							if u, ok := src.(*ssa.UnOp); ok && derivedFromE(u) {
								if n2, ok := fieldOfAny(u.X); ok && n2 == "images" {
									imagesMoved = true
								}
							}
						} else if sl, ok := src.(*ssa.Slice); ok {
							if a, ok := sl.X.(*ssa.Alloc); ok {
								for _, r := range *a.Referrers() {
									if ia, ok := r.(*ssa.IndexAddr); ok {
										for _, rr := range *ia.Referrers() {
											if s2, ok := rr.(*ssa.Store); ok && derivedFromE(s2.Val) {
												collected = true
											}
										}
									}
								}
							}
						}
					}
				}
				if name, ok := fieldOfAny(st.Addr); ok {
					dep := false
					var walk func(v ssa.Value, d int)
					walk = func(v ssa.Value, d int) {
						if d > 5 || dep {
							return
						}
						if derivedFromE(v) {
							dep = true
							return
						}
						switch x := v.(type) {
						case *ssa.Call:
							for _, a := range x.Call.Args {
								walk(a, d+1)
							}
						case *ssa.BinOp:
							walk(x.X, d+1)
							walk(x.Y, d+1)
						case *ssa.Phi:
							for _, ed := range x.Edges {
								walk(ed, d+1)
							}
						}
					}
					walk(st.Val, 0)
					if dep && name == "start" {
						startUpd = true
					}
					if dep && name == "end" {
						endUpd = true
						if firstOnly(b) {
							endFirstOnly = true
						}
					}
				}
			}
		}
	}
	key := "pals.(*Piler).merge/"
	verdict := func(ok bool, k, good, bad string, pos token.Pos) {
		if ok {
			c.ok(rule, key+k, pos, good)
		} else {
			c.bad(rule, key+k, pos, bad)
		}
	}
	if viaGet {
		// the slice of matches is the collection; it must be what the deletion loop walks
		for _, d := range deletes {
			if len(d.Call.Args) > 1 && derivedFromE(d.Call.Args[1]) {
				collected = true
			}
		}
	}
	verdict(collected, "matches-collected", "every matched interval is appended to the list of intervals to replace", "a matched interval is not recorded for replacement: it stays in the tree next to the merged interval, so its features appear in two piles", cb.Pos())
	verdict(imagesMoved, "images-carried-over", "the images of every matched interval are appended to the merged interval", "the images of the intervals that the merged interval replaces are not carried over: those features belong to no pile afterwards", cb.Pos())
	verdict(!endFirstOnly, "end-from-every-match", "the end of the merged interval is extended from every matched interval", "the end of the merged interval is extended only from the first matched interval (the update sits under the first-match flag): matches arrive in ascending order of start, not of end, so a later match that reaches further right is absorbed without the pile covering it", cb.Pos())
	verdict(startUpd && endUpd, "span-is-union", "both ends of the merged interval are extended from the matched intervals", "the merged interval's start or end is not extended from the intervals it absorbs: the pile does not cover all its members", cb.Pos())
	// deletion of everything collected, in a loop over the collected list, on the queried tree
	delOK := false
	loops := naturalLoops(merge)
	for _, d := range deletes {
		if d.Call.Args[0] != query.Call.Args[0] {
			continue
		}
		for _, lp := range loops {
			// the loop runs unconditionally between the query and the insertion
			if lp.body[d.Block()] && query.Block().Dominates(lp.head) && (insert == nil || lp.head.Dominates(insert.Block())) {
				delOK = true
			}
		}
	}
	verdict(delOK, "matches-deleted", "every collected interval is deleted from the queried tree", "the intervals absorbed into the merged interval are not all deleted from the tree: members would be reported in the old pile and in the merged one", merge.Pos())
	insOK := insert != nil && insert.Call.Args[0] == query.Call.Args[0]
	if insOK {
		for _, d := range deletes {
			if !reachesInstr(d, insert) {
				insOK = false
			}
		}
	}
	if insOK {
		// ... on every path: no return between the query and the insertion
		for _, r := range returnsOf(merge) {
			if reachesInstr(query, r) && !mustPassBetween(query, r, func(i ssa.Instruction) bool { return i == ssa.Instruction(insert) }) {
				insOK = false
			}
		}
	}
	verdict(insOK, "merged-inserted", "the merged interval is inserted into the same tree after the deletions", "the merged interval is not inserted into the queried tree after the absorbed ones were removed on every path (a path that updates a stored interval in place and returns leaves the tree's cached ranges stale: later features overlapping only the extension are not merged, so piles overlap)", merge.Pos())
}

func fieldOfAny(v ssa.Value) (string, bool) {
	fa, ok := v.(*ssa.FieldAddr)
	if !ok {
		return "", false
	}
	return anyFieldName(fa)
}

// rulePileAdd: Piler.Add looks the pair up in both orientations before it
// touches the trees, and records it on every successful path.
func rulePileAdd(c *Ctx, rule string) {
	add := c.fn("align/pals", "(*Piler).Add")
	merge := c.fn("align/pals", "(*Piler).merge")
	type lookupEv struct {
		ssa.Instruction
		Index ssa.Value
		pair  [2]ssa.Value // the two halves of the key, when a wrapper builds the key from two arguments
		both  bool         // the call is to a helper that looks its key up in both orientations itself
	}
	// a private helper that looks its parameter up in p.seen and reports whether it is there (isSeen)
	lookupWrapper := func(g *ssa.Function) int {
		if g == nil || g.Pkg != add.Pkg || g.Blocks == nil {
			return -1
		}
		for _, b := range g.Blocks {
			for _, ins := range b.Instrs {
				if l, ok := ins.(*ssa.Lookup); ok && l.CommaOk && loadOfField(l.X, palsPkg, "Piler", "seen") {
					for i, prm := range g.Params {
						if l.Index == ssa.Value(prm) {
							return i
						}
					}
				}
			}
		}
		return -1
	}
	var lookups []lookupEv
	var updates []*ssa.MapUpdate
	var merges []*ssa.Call
	for _, b := range add.Blocks {
		for _, ins := range b.Instrs {
			switch x := ins.(type) {
			case *ssa.Lookup:
				if x.CommaOk && loadOfField(x.X, palsPkg, "Piler", "seen") {
					lookups = append(lookups, lookupEv{Instruction: x, Index: x.Index})
				}
			case *ssa.MapUpdate:
				if loadOfField(x.Map, palsPkg, "Piler", "seen") {
					updates = append(updates, x)
				}
			case *ssa.Call:
				if x.Call.StaticCallee() == merge {
					merges = append(merges, x)
				} else if g := x.Call.StaticCallee(); g != nil && g.Pkg == add.Pkg && g.Blocks != nil && g != add {
					// a private helper that builds the interval and merges it (mergeFeature(f))
					for _, h := range privateReach(g) {
						if h == merge {
							merges = append(merges, x)
							break
						}
					}
				}
				if g := x.Call.StaticCallee(); g != nil && g.Pkg == add.Pkg && g.Blocks != nil && g != add {
					// a helper that looks the key it is given up as it is and with its halves exchanged (isSeen(ab))
					var ls []*ssa.Lookup
					for _, gb := range g.Blocks {
						for _, gi := range gb.Instrs {
							if l, ok := gi.(*ssa.Lookup); ok && l.CommaOk && loadOfField(l.X, palsPkg, "Piler", "seen") {
								ls = append(ls, l)
							}
						}
					}
					if len(ls) == 2 && (swappedKeys(ls[0].Index, ls[1].Index) || swappedKeys(ls[1].Index, ls[0].Index)) {
						lookups = append(lookups, lookupEv{Instruction: x, Index: ls[0].Index, both: true}, lookupEv{Instruction: x, Index: ls[1].Index, both: true})
						continue
					}
				}
				if pi := lookupWrapper(x.Call.StaticCallee()); pi >= 0 && pi < len(x.Call.Args) {
					lookups = append(lookups, lookupEv{Instruction: x, Index: x.Call.Args[pi]})
				} else if i, j := pairLookupWrapper(x.Call.StaticCallee(), add.Pkg); i >= 0 && i < len(x.Call.Args) && j < len(x.Call.Args) {
					lookups = append(lookups, lookupEv{Instruction: x, Index: x.Call.Args[i], pair: [2]ssa.Value{x.Call.Args[i], x.Call.Args[j]}})
				}
			}
		}
	}
	key := "pals.(*Piler).Add/"
	// both orientations
	inTable := false
	if len(lookups) == 1 {
		if ps := tableOfKeys(lookups[0].Index); len(ps) == 2 && ps[0][0] != nil && ps[0][1] != nil && ps[0][0] != ps[0][1] && ps[0][0] == ps[1][1] && ps[0][1] == ps[1][0] {
			inTable = true
		}
	}
	switch {
	case inTable:
		c.ok(rule, key+"duplicate-lookup-both-orientations", lookups[0].Pos(), "the pair is looked up in a loop over a table holding it as (A,B) and as (B,A)")
	case len(lookups) >= 2 && lookups[0].both && lookups[1].both:
		c.ok(rule, key+"duplicate-lookup-both-orientations", lookups[0].Pos(), "the pair is looked up through a helper that tries the key as given and with its halves exchanged")
	case len(lookups) >= 2 && lookups[0].pair[0] != nil && lookups[1].pair[0] != nil && lookups[0].pair[0] != lookups[0].pair[1] && lookups[0].pair[0] == lookups[1].pair[1] && lookups[0].pair[1] == lookups[1].pair[0]:
		c.ok(rule, key+"duplicate-lookup-both-orientations", lookups[0].Pos(), "the pair is looked up as (A,B) and as (B,A) through a helper that builds the key from its two arguments")
	case len(lookups) >= 2 && lookups[0].Index != lookups[1].Index && swappedKeys(lookups[0].Index, lookups[1].Index):
		c.ok(rule, key+"duplicate-lookup-both-orientations", lookups[0].Pos(), "the pair is looked up as (A,B) and as (B,A)")
	case len(lookups) >= 2:
		c.bad(rule, key+"duplicate-lookup-both-orientations", lookups[0].Pos(), "the two duplicate look-ups do not use the pair in swapped order: a pair added again with its features exchanged is not recognised")
	case len(lookups) == 1:
		// a single look-up is right only if the pair is first put into a canonical
		// orientation by a total order on its features: the ordering tests must
		// involve every field of the key's element type
		all := map[string]bool{}
		used := map[string]bool{}
		var elemT types.Type
		if arr, ok := lookups[0].Index.Type().Underlying().(*types.Array); ok {
			elemT = arr.Elem()
			if st, ok := elemT.Underlying().(*types.Struct); ok {
				for i := 0; i < st.NumFields(); i++ {
					all[st.Field(i).Name()] = true
				}
			}
		}
		var fieldsIn func(v ssa.Value, d int)
		fieldsIn = func(v ssa.Value, d int) {
			if v == nil || d > 6 {
				return
			}
			switch x := v.(type) {
			case *ssa.UnOp:
				if fa, ok := x.X.(*ssa.FieldAddr); ok && elemT != nil {
					if pt, ok := fa.X.Type().Underlying().(*types.Pointer); ok && types.Identical(pt.Elem(), elemT) {
						used[structFieldName(fa.X.Type(), fa.Field)] = true
						return
					}
				}
				fieldsIn(x.X, d+1)
			case *ssa.Field:
				if types.Identical(x.X.Type(), elemT) {
					used[structFieldName(x.X.Type(), x.Field)] = true
					return
				}
			case *ssa.BinOp:
				fieldsIn(x.X, d+1)
				fieldsIn(x.Y, d+1)
			case *ssa.Call:
				for _, a := range x.Call.Args {
					fieldsIn(a, d+1)
				}
				if x.Call.IsInvoke() {
					fieldsIn(x.Call.Value, d+1)
				}
			case *ssa.MakeInterface:
				fieldsIn(x.X, d+1)
			}
		}
		for _, b := range add.Blocks {
			if ifi, ok := b.Instrs[len(b.Instrs)-1].(*ssa.If); ok && reaches(b, lookups[0].Block(), nil) {
				fieldsIn(ifi.Cond, 0)
			}
		}
		var missing []string
		for f := range all {
			if !used[f] {
				missing = append(missing, f)
			}
		}
		sort.Strings(missing)
		if len(all) > 0 && len(missing) > 0 {
			c.bad(rule, key+"duplicate-lookup-both-orientations", lookups[0].Pos(), fmt.Sprintf("the pair is looked up once, under an orientation chosen by tests that never look at field(s) %v of the key: two features that differ only there are not ordered, so the same pair added with its features exchanged gets a different key and is accepted", missing))
		} else {
			c.und(rule, key+"duplicate-lookup-both-orientations", lookups[0].Pos(), "a single look-up under an orientation chosen from all key fields: the rule cannot tell whether the ordering is total")
		}
	default:
		c.bad(rule, key+"duplicate-lookup-both-orientations", add.Pos(), "Add never looks the pair up among the pairs already seen")
	}
	// verdict before mutation
	okBefore := len(merges) > 0
	for _, m := range merges {
		for _, l := range lookups {
			if inTable {
				// the look-up loop is over before the first merge: its head dominates the merge and the merge is outside it
				var lp *ssaLoop
				for _, cand := range naturalLoops(add) {
					if cand.body[l.Block()] {
						lp = cand
					}
				}
				if lp == nil || lp.body[m.Block()] || !lp.head.Dominates(m.Block()) {
					okBefore = false
				}
				continue
			}
			if !(l.Block().Dominates(m.Block()) && (l.Block() != m.Block() || instrIndex(l.Block(), l.Instruction) < instrIndex(m.Block(), m))) {
				okBefore = false
			}
		}
	}
	if okBefore {
		c.ok(rule, key+"duplicate-verdict-before-merge", add.Pos(), "both look-ups dominate the first change to the interval trees")
	} else {
		c.bad(rule, key+"duplicate-verdict-before-merge", add.Pos(), "a feature is merged into the trees before the duplicate look-ups are complete: a rejected pair leaves one of its features piled")
	}
	// recorded on success
	okRec := len(updates) > 0
	for _, b := range add.Blocks {
		ret, isRet := b.Instrs[len(b.Instrs)-1].(*ssa.Return)
		if !isRet || !isNilErrorReturn(ret) {
			continue
		}
		if !mustPassBefore(add, ret, func(i ssa.Instruction) bool {
			u, ok := i.(*ssa.MapUpdate)
			return ok && loadOfField(u.Map, palsPkg, "Piler", "seen")
		}) {
			okRec = false
		}
	}
	if okRec {
		c.ok(rule, key+"pair-recorded-on-success", add.Pos(), "every successful return has recorded the pair")
	} else {
		c.bad(rule, key+"pair-recorded-on-success", add.Pos(), "some successful path does not record the pair: adding it again is not rejected")
	}
	if len(merges) == 2 {
		c.ok(rule, key+"both-features-merged", merges[0].Pos(), "both features of the pair are merged")
	} else if len(merges) == 1 && mergeLoopsOverBoth(add, merges[0]) {
		c.ok(rule, key+"both-features-merged", merges[0].Pos(), "merge is called in a loop over an array literal holding both features of the pair")
	} else {
		c.bad(rule, key+"both-features-merged", add.Pos(), fmt.Sprintf("Add merges %d feature(s) of the pair, not both", len(merges)))
	}
}

// swappedKeys: k1 and k2 are loads of two 2-element arrays holding the same
// two values in opposite order.
// mergeLoopsOverBoth: the single merge call sits in a loop over a two-element
// array literal whose elements are the A and the B feature of the pair.
func mergeLoopsOverBoth(add *ssa.Function, m *ssa.Call) bool {
	inLoop := false
	for _, l := range naturalLoops(add) {
		if l.body[m.Block()] {
			inLoop = true
		}
	}
	if !inLoop {
		return false
	}
	for _, b := range add.Blocks {
		for _, ins := range b.Instrs {
			al, ok := ins.(*ssa.Alloc)
			if !ok {
				continue
			}
			arr, ok := al.Type().Underlying().(*types.Pointer).Elem().Underlying().(*types.Array)
			if !ok || arr.Len() != 2 {
				continue
			}
			fields := map[string]bool{}
			for _, r := range *al.Referrers() {
				if ia, ok := r.(*ssa.IndexAddr); ok {
					for _, rr := range *ia.Referrers() {
						if st, ok := rr.(*ssa.Store); ok {
							v := st.Val
							if ld, ok := v.(*ssa.UnOp); ok && ld.Op == token.MUL {
								v = ld.X
							}
							if name, ok := fieldOfAny(v); ok {
								fields[name] = true
							}
						}
					}
				}
			}
			if fields["A"] && fields["B"] {
				return true
			}
		}
	}
	return false
}

// pairLookupWrapper: g looks the key [2]T{a, b} built from two of its parameters up in p.seen; returns their indices.
func pairLookupWrapper(g *ssa.Function, pkg *ssa.Package) (int, int) {
	if g == nil || g.Pkg != pkg || g.Blocks == nil {
		return -1, -1
	}
	for _, b := range g.Blocks {
		for _, ins := range b.Instrs {
			l, ok := ins.(*ssa.Lookup)
			if !ok || !l.CommaOk || !loadOfField(l.X, palsPkg, "Piler", "seen") {
				continue
			}
			u, ok := l.Index.(*ssa.UnOp)
			if !ok || u.Op != token.MUL {
				continue
			}
			al, ok := u.X.(*ssa.Alloc)
			if !ok {
				continue
			}
			var a, bb ssa.Value
			for _, r := range *al.Referrers() {
				ia, ok := r.(*ssa.IndexAddr)
				if !ok {
					continue
				}
				i, ok := constIntVal(ia.Index)
				if !ok {
					continue
				}
				for _, rr := range *ia.Referrers() {
					if st, ok := rr.(*ssa.Store); ok {
						if i == 0 {
							a = st.Val
						} else if i == 1 {
							bb = st.Val
						}
					}
				}
			}
			pi, pj := -1, -1
			for i, prm := range g.Params {
				if a == ssa.Value(prm) {
					pi = i
				}
				if bb == ssa.Value(prm) {
					pj = i
				}
			}
			if pi >= 0 && pj >= 0 && pi != pj {
				return pi, pj
			}
		}
	}
	return -1, -1
}

// tableOfKeys: idx is an element of a local table of keys that a loop ranges over
// (for _, k := range [...][2]sf{ab, {b, a}}): the two halves of each entry.
func tableOfKeys(idx ssa.Value) (pairs [][2]ssa.Value) {
	var ea *ssa.IndexAddr
	var arr *ssa.Alloc
	switch x := idx.(type) {
	case *ssa.UnOp: // *(&table[i])
		if x.Op != token.MUL {
			return nil
		}
		e, ok := x.X.(*ssa.IndexAddr)
		if !ok {
			return nil
		}
		ea = e
		arr, _ = e.X.(*ssa.Alloc)
	case *ssa.Index: // (*table)[i]
		if l, ok := x.X.(*ssa.UnOp); ok && l.Op == token.MUL {
			arr, _ = l.X.(*ssa.Alloc)
		}
	}
	if arr == nil {
		return nil
	}
	outer, ok := arr.Type().Underlying().(*types.Pointer).Elem().Underlying().(*types.Array)
	if !ok {
		return nil
	}
	if _, ok := outer.Elem().Underlying().(*types.Array); !ok {
		return nil
	}
	norm := func(v ssa.Value) ssa.Value {
		if l, ok := v.(*ssa.UnOp); ok && l.Op == token.MUL {
			if al, ok := l.X.(*ssa.Alloc); ok {
				return al
			}
		}
		return v
	}
	halves := func(al *ssa.Alloc) (a, b ssa.Value) {
		for _, r := range *al.Referrers() {
			ia, ok := r.(*ssa.IndexAddr)
			if !ok {
				continue
			}
			i, ok := constIntVal(ia.Index)
			if !ok {
				continue
			}
			for _, rr := range *ia.Referrers() {
				if st, ok := rr.(*ssa.Store); ok {
					if i == 0 {
						a = norm(st.Val)
					} else if i == 1 {
						b = norm(st.Val)
					}
				}
			}
		}
		return
	}
	entries := map[int64][2]ssa.Value{}
	for _, r := range *arr.Referrers() {
		ia, ok := r.(*ssa.IndexAddr)
		if !ok || ia == ea {
			continue
		}
		i, ok := constIntVal(ia.Index)
		if !ok {
			continue
		}
		e := entries[i]
		for _, rr := range *ia.Referrers() {
			switch x := rr.(type) {
			case *ssa.Store:
				// the whole entry copied from a local key
				if l, ok := x.Val.(*ssa.UnOp); ok && l.Op == token.MUL {
					if src, ok := l.X.(*ssa.Alloc); ok {
						e[0], e[1] = halves(src)
					}
				}
			case *ssa.IndexAddr:
				j, ok := constIntVal(x.Index)
				if !ok || j < 0 || j > 1 {
					continue
				}
				for _, r3 := range *x.Referrers() {
					if st, ok := r3.(*ssa.Store); ok {
						e[j] = norm(st.Val)
					}
				}
			}
		}
		entries[i] = e
	}
	for i := int64(0); i < int64(len(entries)); i++ {
		pairs = append(pairs, entries[i])
	}
	return pairs
}

func swappedKeys(k1, k2 ssa.Value) bool {
	// two results of one helper (fwd, rev := pairKeys(fp)): compare what the helper returns
	if e1, ok := k1.(*ssa.Extract); ok {
		if e2, ok := k2.(*ssa.Extract); ok && e1.Tuple == e2.Tuple && e1.Index != e2.Index {
			if call, ok := e1.Tuple.(*ssa.Call); ok {
				if g := call.Call.StaticCallee(); g != nil && g.Blocks != nil {
					all := true
					n := 0
					for _, r := range returnsOf(g) {
						if e1.Index < len(r.Results) && e2.Index < len(r.Results) {
							n++
							if !swappedKeys(r.Results[e1.Index], r.Results[e2.Index]) {
								all = false
							}
						}
					}
					return n > 0 && all
				}
			}
		}
	}
	elems := func(k ssa.Value) (a, b ssa.Value) {
		u, ok := k.(*ssa.UnOp)
		if !ok || u.Op != token.MUL {
			return
		}
		al, ok := u.X.(*ssa.Alloc)
		if !ok {
			return
		}
		if _, ok := al.Type().Underlying().(*types.Pointer).Elem().Underlying().(*types.Array); !ok {
			return
		}
		for _, r := range *al.Referrers() {
			ia, ok := r.(*ssa.IndexAddr)
			if !ok {
				continue
			}
			i, ok := constIntVal(ia.Index)
			if !ok {
				continue
			}
			for _, rr := range *ia.Referrers() {
				if st, ok := rr.(*ssa.Store); ok {
					if i == 0 {
						a = st.Val
					} else if i == 1 {
						b = st.Val
					}
				}
			}
		}
		return
	}
	var norm func(v ssa.Value) ssa.Value
	norm = func(v ssa.Value) ssa.Value { // a load of a local variable stands for that variable
		if u, ok := v.(*ssa.UnOp); ok && u.Op == token.MUL {
			if al, ok := u.X.(*ssa.Alloc); ok {
				return al
			}
			// an element of another local key array (ba := [2]sf{ab[1], ab[0]}): what was stored there
			if ia, ok := u.X.(*ssa.IndexAddr); ok {
				if al, ok := ia.X.(*ssa.Alloc); ok {
					if i, ok := constIntVal(ia.Index); ok {
						var stored ssa.Value
						n := 0
						for _, r := range *al.Referrers() {
							ia2, ok := r.(*ssa.IndexAddr)
							if !ok {
								continue
							}
							if j, ok := constIntVal(ia2.Index); !ok || j != i {
								continue
							}
							for _, rr := range *ia2.Referrers() {
								if st, ok := rr.(*ssa.Store); ok && st.Addr == ssa.Value(ia2) {
									stored = st.Val
									n++
								}
							}
						}
						if n == 1 {
							return norm(stored)
						}
					}
				}
			}
		}
		return v
	}
	a1, b1 := elems(k1)
	a2, b2 := elems(k2)
	// k2 built from the elements of k1 itself ([2]sf{ab[1], ab[0]}), k1 being a variable that is not
	// assembled element by element here (a parameter)
	if u1, ok := k1.(*ssa.UnOp); ok && u1.Op == token.MUL {
		if al1, ok := u1.X.(*ssa.Alloc); ok && a2 != nil && b2 != nil {
			elemOf := func(v ssa.Value) int64 {
				u, ok := v.(*ssa.UnOp)
				if !ok || u.Op != token.MUL {
					return -1
				}
				ia, ok := u.X.(*ssa.IndexAddr)
				if !ok || ia.X != ssa.Value(al1) {
					return -1
				}
				if i, ok := constIntVal(ia.Index); ok {
					return i
				}
				return -1
			}
			if elemOf(a2) == 1 && elemOf(b2) == 0 {
				return true
			}
		}
	}
	a1, b1, a2, b2 = norm(a1), norm(b1), norm(a2), norm(b2)
	return a1 != nil && b1 != nil && a1 == b2 && b1 == a2 && a1 != b1
}
