// Rules added after the fifth round of seeded changes (DESIGN §10.4).
package main

import (
	"fmt"
	"go/constant"
	"go/token"
	"go/types"
	"math"
	"strings"

	"golang.org/x/tools/go/ssa"
)

// ---- overflowwidth (C01): no overflow-prone arithmetic on the user-set line width ----

// ruleOverflowWidth: fasta.Writer.Width is an exported field; any positive
// value is a legal line width, including values close to the largest int
// ("do not wrap"). Adding to it or multiplying by it can overflow; only
// division, remainder and comparisons are safe for every width.
func ruleOverflowWidth(c *Ctx, rule string) {
	pkg := modPath + "/io/seqio/fasta"
	fn := c.fn("io/seqio/fasta", "(*Writer).Write")
	c.Funcs[funcName(fn)] = true
	key := funcName(fn) + "/width-arithmetic"
	var bad *ssa.BinOp
	n := 0
	for _, b := range fn.Blocks {
		for _, ins := range b.Instrs {
			bo, ok := ins.(*ssa.BinOp)
			if !ok {
				continue
			}
			isW := func(v ssa.Value) bool { return loadOfField(v, pkg, "Writer", "Width") }
			if !isW(bo.X) && !isW(bo.Y) {
				continue
			}
			n++
			switch bo.Op {
			case token.ADD, token.MUL, token.SHL:
				bad = bo
			}
		}
	}
	switch {
	case bad != nil:
		c.bad(rule, key, bad.Pos(), "the line width is an operand of "+bad.Op.String()+": for widths near the largest int (a natural way to ask for unwrapped output) the result wraps around, the computed line count is wrong and letters are dropped from the output although the header is written")
	case n == 0:
		c.und(rule, key, fn.Pos(), "the writer does not use its Width field")
	default:
		c.ok(rule, key, fn.Pos(), fmt.Sprintf("the width is used only in %d overflow-free operation(s) (remainder, division, comparison)", n))
	}
}

// ---- eofspin (C03): at end of input a ReadLine reader cannot loop without progress ----

// ruleEOFSpin: an abstract run of the read loop with the reader at end of
// input (ReadLine returns no data and io.EOF, every time). The only state
// that can change is the accumulated line; it is tracked as empty / not
// empty / unknown through appends of the (empty) fragment, re-slices, nil
// assignments, trims and the branches that test its length. If the loop can
// get back to the ReadLine call with the accumulator still not empty — the
// state it started from — no call ever returns: Read hangs.
func ruleEOFSpin(c *Ctx, rule string, shorts ...string) {
	keyN := map[string]int{}
	for _, call := range lineCalls(c, shorts, "ReadLine") {
		fn := call.Parent()
		key := numberedKey(keyN, funcName(fn)+"/ReadLine/end-of-input-progress")
		frag, errv := extractOf(call, 0), extractOf(call, 2)
		if frag == nil || errv == nil {
			c.und(rule, key, call.Pos(), "fragment or error result unused")
			continue
		}
		const (
			unk = iota
			empty
			nonEmpty
		)
		type env map[ssa.Value]int
		var errAlloc ssa.Value
		for _, r := range *errv.Referrers() {
			if st, ok := r.(*ssa.Store); ok && st.Val == ssa.Value(errv) {
				errAlloc = st.Addr
			}
		}
		isErr := func(v ssa.Value) bool {
			if v == ssa.Value(errv) {
				return true
			}
			if u, ok := v.(*ssa.UnOp); ok && u.Op == token.MUL && errAlloc != nil && u.X == errAlloc {
				return true
			}
			return false
		}
		var eval func(v ssa.Value, e env) int
		eval = func(v ssa.Value, e env) int {
			if s, ok := e[v]; ok {
				return s
			}
			switch x := v.(type) {
			case *ssa.Const:
				if x.Value == nil {
					return empty
				}
			case *ssa.Extract:
				if x == frag {
					return empty
				}
			case *ssa.Slice:
				if k, ok := constIntVal(x.High); ok && k == 0 {
					return empty
				}
				if eval(x.X, e) == empty {
					return empty
				}
			case *ssa.Call:
				if builtinCall(x, "append") != nil && len(x.Call.Args) == 2 {
					a, b := eval(x.Call.Args[0], e), eval(x.Call.Args[1], e)
					if a == nonEmpty || b == nonEmpty {
						return nonEmpty
					}
					if a == empty && b == empty {
						return empty
					}
				}
				if sf := x.Call.StaticCallee(); sf != nil && sf.Pkg != nil && sf.Pkg.Pkg.Path() == "bytes" {
					switch sf.Name() {
					case "TrimSpace", "TrimRight", "TrimLeft", "Trim", "TrimSuffix", "TrimPrefix":
						if eval(x.Call.Args[0], e) == empty {
							return empty
						}
					}
				}
			}
			return unk
		}
		type state struct {
			b   *ssa.BasicBlock
			acc string
		}
		// the accumulator phis at the call's loop head
		accPhis := map[*ssa.Phi]bool{}
		for _, r := range *frag.Referrers() {
			if ap, ok := r.(*ssa.Call); ok && builtinCall(ap, "append") != nil {
				if phi, ok := ap.Call.Args[0].(*ssa.Phi); ok {
					accPhis[phi] = true
				}
			}
		}
		spin := false
		steps := 0
		var walk func(b *ssa.BasicBlock, from *ssa.BasicBlock, start int, e env, seen map[state]bool)
		walk = func(b *ssa.BasicBlock, from *ssa.BasicBlock, start int, e env, seen map[state]bool) {
			if spin || steps > 20000 {
				return
			}
			steps++
			e2 := env{}
			for k, v := range e {
				e2[k] = v
			}
			e = e2
			if start == 0 {
				// phis take the value of the edge we came over
				for _, ins := range b.Instrs {
					phi, ok := ins.(*ssa.Phi)
					if !ok {
						break
					}
					for i, p := range b.Preds {
						if p == from {
							e[phi] = eval(phi.Edges[i], e)
						}
					}
				}
				sig := ""
				for phi := range accPhis {
					if phi.Block() == b {
						sig += fmt.Sprint(e[phi])
					}
				}
				st := state{b, sig}
				if seen[st] {
					return
				}
				seen[st] = true
			}
			for i := start; i < len(b.Instrs); i++ {
				ins := b.Instrs[i]
				if ins == ssa.Instruction(call) {
					// back at the read: progress only if the accumulator is (or may be) empty
					for phi := range accPhis {
						if phi.Block() == b && e[phi] == nonEmpty {
							spin = true
						}
					}
					return
				}
				switch x := ins.(type) {
				case *ssa.Return, *ssa.Panic:
					return
				case *ssa.If:
					take := []int{0, 1}
					refine := map[int]func(env){}
					if bo, ok := x.Cond.(*ssa.BinOp); ok {
						// err ?= nil / io.EOF
						if bo.Op == token.EQL || bo.Op == token.NEQ {
							var other ssa.Value
							if isErr(bo.X) {
								other = bo.Y
							} else if isErr(bo.Y) {
								other = bo.X
							}
							if other != nil {
								switch {
								case isNilConst(other):
									if bo.Op == token.NEQ {
										take = []int{0}
									} else {
										take = []int{1}
									}
								case isGlobalLoad(other, "io", "EOF"):
									if bo.Op == token.EQL {
										take = []int{0}
									} else {
										take = []int{1}
									}
								}
							}
						}
						// len(v) ?= 0
						if lc := builtinCall(bo.X, "len"); lc != nil {
							if k, ok := constIntVal(bo.Y); ok && k == 0 {
								v := lc.Call.Args[0]
								s := eval(v, e)
								isEmptyEdge := -1
								switch bo.Op {
								case token.EQL, token.LEQ:
									isEmptyEdge = 0
								case token.NEQ, token.GTR:
									isEmptyEdge = 1
								}
								if isEmptyEdge >= 0 {
									switch s {
									case empty:
										take = []int{isEmptyEdge}
									case nonEmpty:
										take = []int{1 - isEmptyEdge}
									default:
										refine[isEmptyEdge] = func(en env) { en[v] = empty }
										refine[1-isEmptyEdge] = func(en env) { en[v] = nonEmpty }
									}
								}
							}
						}
						// isPrefix is false at end of input
						if ex, ok := x.Cond.(*ssa.Extract); ok && ex.Tuple == ssa.Value(call) && ex.Index == 1 {
							take = []int{1}
						}
					}
					if ex, ok := x.Cond.(*ssa.Extract); ok && ex.Tuple == ssa.Value(call) && ex.Index == 1 {
						take = []int{1}
					}
					for _, t := range take {
						en := env{}
						for k, v := range e {
							en[k] = v
						}
						if f := refine[t]; f != nil {
							f(en)
						}
						walk(b.Succs[t], b, 0, en, seen)
					}
					return
				default:
					if v, ok := ins.(ssa.Value); ok {
						if _, isPhi := ins.(*ssa.Phi); !isPhi {
							if s := eval(v, e); s != unk {
								e[v] = s
							}
						}
					}
				}
			}
			for _, s := range b.Succs {
				walk(s, b, 0, e, seen)
			}
		}
		idx := 0
		for i, ins := range call.Block().Instrs {
			if ins == ssa.Instruction(call) {
				idx = i + 1
			}
		}
		start := env{}
		for phi := range accPhis {
			start[phi] = nonEmpty
		}
		walk(call.Block(), nil, idx, start, map[state]bool{})
		if spin {
			c.bad(rule, key, call.Pos(), "with the reader at end of input and fragments of an unterminated (or blank) line still in the accumulator, a path through the loop gets back to ReadLine with the accumulator still not empty: every further iteration sees the same state, so Read never returns")
		} else {
			c.ok(rule, key, call.Pos(), "at end of input every path back to ReadLine has emptied the accumulated line (or returns): the loop makes progress")
		}
	}
}

// ---- byteidx (C03): constant subscripts of a line are covered by length facts ----

// ruleByteIdx: a constant subscript or slice bound applied to a []byte line
// in the readers needs len(line) > k. Known facts: dominating comparisons of
// len(line) with constants, and a dominating bytes.HasPrefix(line, lit) that
// held (len(line) >= len(lit)).
func ruleByteIdx(c *Ctx, rule string, shorts ...string) {
	n := 0
	byteKeys := map[string]int{}
	for _, short := range shorts {
		sp := c.SPkgs[c.pkg(short).PkgPath]
		for _, fn := range srcFuncs(sp) {
			for _, b := range fn.Blocks {
				for _, ins := range b.Instrs {
					var base ssa.Value
					var need int64
					switch x := ins.(type) {
					case *ssa.IndexAddr:
						if !isByteSlice(x.X.Type()) {
							continue
						}
						k, ok := constIntVal(x.Index)
						if !ok {
							continue
						}
						base, need = x.X, k+1
					case *ssa.Slice:
						if !isByteSlice(x.X.Type()) || x.Low == nil {
							continue
						}
						k, ok := constIntVal(x.Low)
						if !ok || k == 0 {
							continue
						}
						base, need = x.X, k
					default:
						continue
					}
					// only values that are (parts of) an input line: parameters and call results
					switch base.(type) {
					case *ssa.Parameter, *ssa.Call, *ssa.Extract:
					default:
						continue // loop-carried copies (a saved label) are protected by the reader's state, not by local tests
					}
					// literals made here are not input
					if len(byteSliceLiteral(base)) > 0 {
						continue
					}
					// a parameter of a private helper that is only ever handed loop-carried copies (the saved
					// label in plusMatches(label, line)) is such a copy
					if prm, ok := base.(*ssa.Parameter); ok && fn.Object() != nil && !fn.Object().Exported() {
						idx := paramIndex(fn, prm)
						sites, carried := 0, 0
						for _, g := range srcFuncs(sp) {
							for _, gb := range g.Blocks {
								for _, gi := range gb.Instrs {
									ci, ok := gi.(ssa.CallInstruction)
									if !ok || ci.Common().StaticCallee() != fn || idx < 0 || idx >= len(ci.Common().Args) {
										continue
									}
									sites++
									switch ci.Common().Args[idx].(type) {
									case *ssa.Parameter, *ssa.Call, *ssa.Extract:
									default:
										carried++
									}
								}
							}
						}
						if sites > 0 && carried == sites {
							continue
						}
					}
					lb := lenLowerBound(c, b, base, 0)
					n++
					c.Funcs[funcName(fn)] = true
					key := numberedKey(byteKeys, fmt.Sprintf("%s/%s[%d]", funcName(fn), symName(base, nil), need-1))
					if lb >= need {
						c.ok(rule, key, ins.Pos(), fmt.Sprintf("len >= %d is established on every path (needs %d)", lb, need))
					} else {
						c.bad(rule, key, ins.Pos(), fmt.Sprintf("the subscript needs len(%s) >= %d but only >= %d is established on every path here: a shorter line (a lone marker character) raises an index panic that the reader does not convert into an error", symName(base, nil), need, lb))
					}
				}
			}
		}
	}
	if n == 0 {
		c.und(rule, "byteidx", token.NoPos, "no constant subscript of an input line found")
	}
}

// lenLowerBound: the length of v known on every path to blk: dominating
// comparisons of len(v) with constants, a dominating call of a module
// predicate that is true only for len(v) >= k (maybeID1-style helpers), a
// dominating bytes.HasPrefix with a literal, and for a parameter the minimum
// over the call sites of the function.
func lenLowerBound(c *Ctx, blk *ssa.BasicBlock, v ssa.Value, depth int) int64 {
	facts := factsAt(blk, lenOf(v))
	lb := lowerBound(facts, 0)
	for excluded(facts, lb) && lb < 8 {
		lb++
	}
	for _, bf := range branchesAtAny(blk) {
		call, ok := bf.cond.(*ssa.Call)
		if !ok || bf.edge != 0 {
			continue
		}
		if calleeIs(&call.Call, "bytes", "HasPrefix") && call.Call.Args[0] == v {
			if lit := byteSliceLiteral(call.Call.Args[1]); int64(len(lit)) > lb {
				lb = int64(len(lit))
			}
		}
		if sf := call.Call.StaticCallee(); sf != nil && inModule(sf) && sf.Blocks != nil {
			for i, a := range call.Call.Args {
				if a == v && i < len(sf.Params) {
					if k := trueImpliesLen(c, sf, sf.Params[i]); k > lb {
						lb = k
					}
				}
			}
		}
	}
	if prm, ok := v.(*ssa.Parameter); ok && depth < 2 {
		fn := prm.Parent()
		idx := paramIndex(fn, prm)
		min := int64(-1)
		for _, g := range srcFuncs(fn.Pkg) {
			for _, gb := range g.Blocks {
				for _, ins := range gb.Instrs {
					ci, ok := ins.(ssa.CallInstruction)
					if !ok || ci.Common().StaticCallee() != fn || idx >= len(ci.Common().Args) {
						continue
					}
					k := lenLowerBound(c, gb, ci.Common().Args[idx], depth+1)
					if min < 0 || k < min {
						min = k
					}
				}
			}
		}
		if min > lb {
			lb = min
		}
	}
	return lb
}

// trueImpliesLen: the largest k such that f(p) == true implies len(p) >= k
// (every return of a possibly-true value is reached with that fact).
var trueImpliesBusy = map[*ssa.Function]bool{}

func trueImpliesLen(c *Ctx, f *ssa.Function, p *ssa.Parameter) int64 {
	if trueImpliesBusy[f] {
		return 0
	}
	trueImpliesBusy[f] = true
	defer delete(trueImpliesBusy, f)
	res := int64(-1)
	note := func(k int64) {
		if res < 0 || k < res {
			res = k
		}
	}
	// the value handed back is itself the answer of another predicate of the module about p
	nested := func(v ssa.Value) int64 {
		call, ok := v.(*ssa.Call)
		if !ok {
			return 0
		}
		sf := call.Call.StaticCallee()
		if sf == nil || !inModule(sf) || sf.Blocks == nil {
			return 0
		}
		for i, a := range call.Call.Args {
			if a == ssa.Value(p) && i < len(sf.Params) {
				return trueImpliesLen(c, sf, sf.Params[i])
			}
		}
		return 0
	}
	for _, r := range returnsOf(f) {
		if len(r.Results) != 1 {
			return 0
		}
		v := r.Results[0]
		if k, ok := v.(*ssa.Const); ok {
			if k.Value != nil && k.Value.String() == "false" {
				continue
			}
		}
		if phi, ok := v.(*ssa.Phi); ok {
			for i, e := range phi.Edges {
				if k, ok := e.(*ssa.Const); ok && k.Value != nil && k.Value.String() == "false" {
					continue
				}
				pred := phi.Block().Preds[i]
				facts := factsAt(pred, lenOf(p))
				// the value may be computed in pred itself: its own dominating facts apply
				lb := lowerBound(facts, 0)
				for excluded(facts, lb) && lb < 8 {
					lb++
				}
				if k := nested(e); k > lb {
					lb = k
				}
				note(lb)
			}
			continue
		}
		facts := factsAt(r.Block(), lenOf(p))
		lb := lowerBound(facts, 0)
		for excluded(facts, lb) && lb < 8 {
			lb++
		}
		if k := nested(v); k > lb {
			lb = k
		}
		note(lb)
	}
	if res < 0 {
		return 0
	}
	return res
}

func isByteSlice(t types.Type) bool {
	s, ok := t.Underlying().(*types.Slice)
	if !ok {
		return false
	}
	b, ok := s.Elem().Underlying().(*types.Basic)
	return ok && b.Kind() == types.Uint8
}

type anyFact struct {
	cond ssa.Value
	edge int
}

// branchesAtAny: like branchesAt, for conditions of any shape (calls).
func branchesAtAny(blk *ssa.BasicBlock) []anyFact {
	var out []anyFact
	for d := blk.Idom(); d != nil; d = d.Idom() {
		ifi, ok := d.Instrs[len(d.Instrs)-1].(*ssa.If)
		if !ok {
			continue
		}
		e := forcedEdge(d, blk)
		if e < 0 {
			continue
		}
		out = append(out, anyFact{ifi.Cond, e})
		// `a && b` in a case clause is a phi [false, b]: when it holds, b held
		if phi, ok := ifi.Cond.(*ssa.Phi); ok && e == 0 {
			for _, ed := range phi.Edges {
				if k, ok := ed.(*ssa.Const); ok && k.Value != nil && k.Value.String() == "false" {
					continue
				}
				out = append(out, anyFact{ed, 0})
			}
		}
	}
	return out
}

// ---- getterpure (C05): alphabet values are shared; their methods write nothing ----

func ruleGetterPure(c *Ctx, rule string) {
	sp := c.SPkgs[c.pkg("alphabet").PkgPath]
	n := 0
	for _, fn := range srcFuncs(sp) {
		if fn.Parent() != nil || fn.Signature.Recv() == nil {
			continue
		}
		rt := fn.Signature.Recv().Type()
		pt, isPtr := rt.(*types.Pointer)
		if !isPtr {
			continue
		}
		nt, ok := pt.Elem().(*types.Named)
		if !ok {
			continue
		}
		switch nt.Obj().Name() {
		case "Pairing", "alpha", "nucleic", "protein":
		default:
			continue
		}
		n++
		c.Funcs[funcName(fn)] = true
		key := funcName(fn) + "/writes-no-receiver-state"
		// a step of construction written as a method: unexported, and called only from the package's
		// constructor functions (functions without a receiver), on the value they are building
		if fn.Object() != nil && !fn.Object().Exported() {
			callers, onlyCtors := 0, true
			for _, g := range srcFuncs(sp) {
				for _, b := range g.Blocks {
					for _, ins := range b.Instrs {
						for _, op := range ins.Operands(nil) {
							if *op != ssa.Value(fn) {
								continue
							}
							ci, isCall := ins.(*ssa.Call)
							if !isCall || ci.Call.StaticCallee() != fn {
								onlyCtors = false // used as a value, deferred or spawned
								continue
							}
							callers++
							if g.Signature.Recv() != nil || g.Parent() != nil {
								onlyCtors = false
								continue
							}
							// the receiver is an object the constructor allocated
							if _, fresh := addrRoot(ci.Call.Args[0]).(*ssa.Alloc); !fresh {
								onlyCtors = false
							}
						}
					}
				}
			}
			if callers > 0 && onlyCtors {
				c.ok(rule, key, fn.Pos(), "a construction step: unexported and called only by constructor functions on the value they allocate")
				continue
			}
		}
		var bad *ssa.Store
		for _, b := range fn.Blocks {
			for _, ins := range b.Instrs {
				if st, ok := ins.(*ssa.Store); ok {
					root := addrRoot(st.Addr)
					if root == ssa.Value(fn.Params[0]) {
						bad = st
					}
					if u, ok := root.(*ssa.UnOp); ok && u.Op == token.MUL {
						if addrRoot(u.X) == ssa.Value(fn.Params[0]) {
							bad = st // element of a slice held by the receiver
						}
					}
				}
			}
		}
		if bad != nil {
			c.bad(rule, key, bad.Pos(), "a method of a shared alphabet value writes receiver state (a table built on first use): alphabets are package-level values used from many goroutines at once, so without synchronisation a concurrent caller can see the table before it is filled and complements letters to zero bytes")
		} else {
			c.ok(rule, key, fn.Pos(), "reads only")
		}
	}
	if n == 0 {
		c.und(rule, "alphabet/methods", token.NoPos, "no alphabet methods found")
	}
}

// ---- rangeself (C05): rows of a column are indexed by a counter that ranges over rows ----

// ruleRangeSelf: in the column-stored alignments' RevComp/Reverse an element
// rs[i][r] is a row of column i; the counter r must come from ranging over a
// column of the same alignment (or over Rows()), not over another collection
// whose length need not equal the number of rows (SubAnnotations is shorter
// for alignments made by New()).
func ruleRangeSelf(c *Ctx, rule string, targets [][2]string) {
	for _, t := range targets {
		fn := c.fn(t[0], t[1])
		c.Funcs[funcName(fn)] = true
		key := funcName(fn) + "/row-counter"
		loops := naturalLoops(fn)
		n := 0
		bad := ""
		var badPos token.Pos
		for _, b := range fn.Blocks {
			for _, ins := range b.Instrs {
				ia, ok := ins.(*ssa.IndexAddr)
				if !ok {
					continue
				}
				// inner subscript: base is a load of an element of a slice of slices
				ld, ok := ia.X.(*ssa.UnOp)
				if !ok || ld.Op != token.MUL {
					continue
				}
				if _, ok := ld.X.(*ssa.IndexAddr); !ok {
					continue
				}
				phi, _, ok := linearIn(ia.Index)
				if !ok {
					continue
				}
				var lp *ssaLoop
				for _, l := range loops {
					if l.head == phi.Block() {
						lp = l
					}
				}
				if lp == nil {
					continue
				}
				ifi, ok := lp.head.Instrs[len(lp.head.Instrs)-1].(*ssa.If)
				if !ok {
					continue
				}
				bo, ok := ifi.Cond.(*ssa.BinOp)
				if !ok {
					continue
				}
				n++
				bound := bo.Y
				okBound := false
				what := symName(bound, nil)
				if lc := builtinCall(bound, "len"); lc != nil {
					arg := lc.Call.Args[0]
					what = "len(" + symName(arg, nil) + ")"
					// len of a column (an element of the same slice of slices)
					if u, ok := arg.(*ssa.UnOp); ok && u.Op == token.MUL {
						if inner, ok := u.X.(*ssa.IndexAddr); ok {
							if outer, ok := ld.X.(*ssa.IndexAddr); ok && inner.X == outer.X {
								okBound = true
							}
						}
					}
				}
				if call, ok := bound.(*ssa.Call); ok {
					if sf := call.Call.StaticCallee(); sf != nil && sf.Name() == "Rows" {
						okBound = true
					}
				}
				if !okBound {
					bad, badPos = what, ia.Pos()
				}
			}
		}
		switch {
		case n == 0:
			c.triv(rule, key, fn.Pos(), "whole columns are moved; no row is addressed")
		case bad != "":
			c.bad(rule, key, badPos, "rows of a column are addressed with a counter that runs up to "+bad+" rather than over a column of the alignment (or Rows()): the two lengths differ for alignments whose annotation list is shorter than the row count (those made by New()), so only some rows — or none — are reverse-complemented while the strand is still negated")
		default:
			c.ok(rule, key, fn.Pos(), "row subscripts are driven by a counter that ranges over a column of the same alignment")
		}
	}
}

// ---- foldinit (C07): a min/max fold over the rows starts from the identity ----

func ruleFoldInit(c *Ctx, rule string, targets [][2]string) {
	for _, t := range targets {
		fn := c.fn(t[0], t[1])
		c.Funcs[funcName(fn)] = true
		key := funcName(fn) + "/fold-start"
		n := 0
		for _, l := range naturalLoops(fn) {
			for _, ins := range l.head.Instrs {
				acc, ok := ins.(*ssa.Phi)
				if !ok {
					break
				}
				// the comparison elem ? acc that guards the update
				var cmp *ssa.BinOp
				for _, r := range *acc.Referrers() {
					if bo, ok := r.(*ssa.BinOp); ok && (bo.Op == token.GTR || bo.Op == token.LSS || bo.Op == token.GEQ || bo.Op == token.LEQ) && bo.Y == ssa.Value(acc) {
						cmp = bo
					}
				}
				if cmp == nil {
					continue
				}
				var init ssa.Value
				for i, p := range l.head.Preds {
					if !l.body[p] {
						init = acc.Edges[i]
					}
				}
				k, ok := constIntVal(init)
				if !ok {
					n++
					c.ok(rule, key, acc.Pos(), "the fold starts from a row's own coordinate")
					continue
				}
				n++
				// the arm on which the accumulator takes the element: the comparison may be written as the
				// test that skips the update (if v < max || ... { continue })
				op := cmp.Op
				for _, r := range *cmp.Referrers() {
					ifi, ok := r.(*ssa.If)
					if !ok {
						continue
					}
					for _, lf := range headerLeaves(l, acc) {
						if lf.v != cmp.X {
							continue
						}
						if e := forcedEdge(ifi.Block(), lf.from); e == 1 {
							op = negateOp(cmp.Op)
						}
					}
				}
				isMax := op == token.GTR || op == token.GEQ
				const maxInt, minInt = int64(^uint64(0) >> 1), -int64(^uint64(0)>>1) - 1
				good := (isMax && k == minInt) || (!isMax && k == maxInt)
				// 32-bit ints
				if (isMax && k == -1<<31) || (!isMax && k == 1<<31-1) {
					good = true
				}
				kind := "minimum"
				if isMax {
					kind = "maximum"
				}
				if good {
					c.ok(rule, key, acc.Pos(), "the running "+kind+" starts from the identity of the fold")
				} else {
					c.bad(rule, key, acc.Pos(), fmt.Sprintf("the running %s over the rows starts from %d instead of the identity of the fold: when every row lies on the other side of that value (an alignment in negative coordinates) the result is %d, not a row's coordinate, so End() != Start()+Len() and Flush pads rows up to a position no row reaches", kind, k, k))
				}
			}
		}
		if n == 0 {
			c.und(rule, key, fn.Pos(), "no constant-initialised min/max fold found")
		}
	}
}

// ---- nilfunc (C07): the quality filter is consulted only below the threshold ----

func ruleNilFunc(c *Ctx, rule string) {
	pkg := modPath + "/seq/alignment"
	sp := c.SPkgs[c.pkg("seq/alignment").PkgPath]
	n := 0
	for _, fn := range srcFuncs(sp) {
		for _, b := range fn.Blocks {
			for _, ins := range b.Instrs {
				call, ok := ins.(*ssa.Call)
				if !ok || call.Call.IsInvoke() || call.Call.StaticCallee() != nil {
					continue
				}
				if !loadOfField(call.Call.Value, pkg, "QSeq", "QFilter") || !strings.HasPrefix(fn.Name(), "Column") {
					continue
				}
				n++
				c.Funcs[funcName(fn)] = true
				key := fmt.Sprintf("%s/QFilter-call#%d", funcName(fn), n)
				guarded := false
				for _, bf := range branchesAt(b) {
					if loadOfField(bf.cond.X, pkg, "QSeq", "Threshold") || loadOfField(bf.cond.Y, pkg, "QSeq", "Threshold") {
						guarded = true
					}
					if (loadOfField(bf.cond.X, pkg, "QSeq", "QFilter") && isNilConst(bf.cond.Y)) || (loadOfField(bf.cond.Y, pkg, "QSeq", "QFilter") && isNilConst(bf.cond.X)) {
						guarded = true
					}
				}
				if guarded {
					c.ok(rule, key, call.Pos(), "the filter is called only for a letter below the threshold (or after a nil check)")
				} else {
					c.bad(rule, key, call.Pos(), "the quality filter is called unconditionally: an alignment made by New() (or a literal) has a nil QFilter and threshold 0, for which the filter was never consulted; now the column view panics with a nil call while the row view still works")
				}
			}
		}
	}
	if n == 0 {
		c.und(rule, "alignment/QFilter-call", token.NoPos, "no call of the QFilter field found")
	}
}

// ---- delegatefamily (C08): an aligner delegates only within its own family ----

func ruleDelegateFamily(c *Ctx, rule string, aligners []string) {
	fam := func(n string) string { return strings.TrimSuffix(n, "Affine") }
	n := 0
	for _, a := range aligners {
		fn := c.fn("align", a+".Align")
		c.Funcs[funcName(fn)] = true
		for _, b := range fn.Blocks {
			for _, ins := range b.Instrs {
				call, ok := ins.(*ssa.Call)
				if !ok {
					continue
				}
				sf := call.Call.StaticCallee()
				if sf == nil || sf.Name() != "Align" || sf.Signature.Recv() == nil || sf.Pkg != fn.Pkg {
					continue
				}
				rn, ok := sf.Signature.Recv().Type().(*types.Named)
				if !ok {
					continue
				}
				n++
				key := fmt.Sprintf("align.%s.Align/delegates-to-%s", a, rn.Obj().Name())
				if fam(rn.Obj().Name()) == fam(a) {
					c.ok(rule, key, call.Pos(), "delegation stays within the "+fam(a)+" family")
				} else {
					c.bad(rule, key, call.Pos(), a+".Align hands the work to "+rn.Obj().Name()+", an aligner of a different family: the two optimise different objectives (global, local, fitted), so on this path the returned alignment is not optimal for "+a)
				}
			}
		}
	}
	if n == 0 {
		c.triv(rule, "align/delegation", token.NoPos, "no aligner delegates to another aligner")
	}
}

// ---- removeowner (C11): run files are removed only by the sorter's clean-up paths ----

func ruleRemoveOwner(c *Ctx, rule string) {
	sp := c.SPkgs[c.pkg("morass").PkgPath]
	allowed := map[string]string{
		"(*Morass).Clear":   "removes the runs still registered in m.files",
		"(*Morass).Pull":    "removes a run it has just exhausted, under AutoClear",
		"(*Morass).CleanUp": "removes the whole temporary directory",
	}
	// a private helper that only the clean-up paths call is part of them
	owner := map[*ssa.Function]string{}
	for _, fn := range srcFuncs(sp) {
		if why, ok := allowed[strings.TrimPrefix(funcName(fn), "morass.")]; ok && fn.Parent() == nil {
			owner[fn] = why
		}
	}
	for changed := true; changed; {
		changed = false
		for _, h := range srcFuncs(sp) {
			if h.Parent() != nil || owner[h] != "" || h.Object() == nil || h.Object().Exported() {
				continue
			}
			callers, all := 0, true
			var via string
			for _, g := range srcFuncs(sp) {
				root := g
				for root.Parent() != nil {
					root = root.Parent()
				}
				for _, b := range g.Blocks {
					for _, ins := range b.Instrs {
						if ci, ok := ins.(ssa.CallInstruction); ok && ci.Common().StaticCallee() == h {
							callers++
							if owner[root] == "" {
								all = false
							} else {
								via = funcName(root)
							}
						}
					}
				}
			}
			if callers > 0 && all {
				owner[h] = "called only from " + via
				changed = true
			}
		}
	}
	n := 0
	for _, fn := range srcFuncs(sp) {
		root := fn
		for root.Parent() != nil {
			root = root.Parent()
		}
		for _, b := range fn.Blocks {
			for _, ins := range b.Instrs {
				call, ok := ins.(*ssa.Call)
				if !ok || !(calleeIs(&call.Call, "os", "Remove") || calleeIs(&call.Call, "os", "RemoveAll")) {
					continue
				}
				n++
				c.Funcs[funcName(fn)] = true
				name := strings.TrimPrefix(funcName(root), "morass.")
				if w := owner[root]; w != "" {
					if _, named := allowed[name]; !named {
						c.ok(rule, fmt.Sprintf("%s/%s#%d", funcName(fn), call.Call.StaticCallee().Name(), n), call.Pos(), "a private helper of the clean-up paths ("+w+")")
						continue
					}
				}
				key := fmt.Sprintf("%s/%s#%d", funcName(fn), call.Call.StaticCallee().Name(), n)
				if why, ok := allowed[name]; ok || root.Name() == "New" {
					if !ok {
						why = "the finalizer installed by New cleans up"
					}
					c.ok(rule, key, call.Pos(), why)
				} else {
					c.bad(rule, key, call.Pos(), "a run file is removed in "+name+", outside the clean-up paths (Clear, Pull under AutoClear, CleanUp): Clear later removes every run still registered and returns on the first error, so the missing file makes Clear fail before it has reset the cycle state, and the next cycle starts from the old one")
				}
			}
		}
	}
	if n == 0 {
		c.und(rule, "morass/os.Remove", token.NoPos, "no file removal found")
	}
}

// ---- cycleowner (C12): only Clear ends a cycle ----

func ruleCycleOwner(c *Ctx, rule string) {
	sp := c.SPkgs[c.pkg("morass").PkgPath]
	n := 0
	for _, fn := range srcFuncs(sp) {
		for _, b := range fn.Blocks {
			for _, ins := range b.Instrs {
				st, ok := ins.(*ssa.Store)
				if !ok {
					continue
				}
				name, ok := fieldOf(st.Addr, morassPkg, "Morass")
				if !ok || name != "len" {
					continue
				}
				k, isK := constIntVal(st.Val)
				if !isK || k != 0 {
					continue
				}
				n++
				c.Funcs[funcName(fn)] = true
				key := fmt.Sprintf("%s/len-reset#%d", funcName(fn), n)
				if fn.Name() == "Clear" {
					c.ok(rule, key, st.Pos(), "the value count is reset by Clear, which resets every per-cycle field")
				} else {
					c.bad(rule, key, st.Pos(), "the cycle's value count is reset outside Clear: a shortcut that ends a cycle without Clear must reset every per-cycle field Clear resets (pos, len, fast, chunk, files, the error slot); whatever it forgets — here at least one of them is not assigned — survives into the next cycle (a stale in-memory flag makes a spilled cycle skip the join and deliver nothing)")
				}
			}
		}
	}
	if n == 0 {
		c.und(rule, "morass/len-reset", token.NoPos, "no reset of the value count found")
	}
}

// ---- ringindex (C14): a tube index is reduced modulo the ring only to address a slot ----

func ruleRingIndex(c *Ctx, rule string) {
	pkg := modPath + "/align/pals/filter"
	sp := c.SPkgs[c.pkg("align/pals/filter").PkgPath]
	n := 0
	for _, fn := range srcFuncs(sp) {
		for _, b := range fn.Blocks {
			for _, ins := range b.Instrs {
				bo, ok := ins.(*ssa.BinOp)
				if !ok || bo.Op != token.REM {
					continue
				}
				cp := builtinCall(bo.Y, "cap")
				if cp == nil {
					cp = builtinCall(bo.Y, "len")
				}
				if cp == nil || !loadOfField(cp.Call.Args[0], pkg, "Filter", "tubes") {
					continue
				}
				n++
				c.Funcs[funcName(fn)] = true
				key := fmt.Sprintf("%s/slot#%d", funcName(fn), n)
				bad := ""
				for _, r := range *bo.Referrers() {
					switch x := r.(type) {
					case *ssa.IndexAddr:
						if x.Index != ssa.Value(bo) {
							bad = "an operand of a subscript expression"
						}
					case *ssa.DebugRef:
					default:
						bad = fmt.Sprintf("%T", r)
						if call, ok := r.(*ssa.Call); ok {
							if sf := call.Call.StaticCallee(); sf != nil {
								bad = "an argument of " + sf.Name()
							}
						}
					}
				}
				if bad == "" {
					c.ok(rule, key, bo.Pos(), "the reduced index only addresses a slot of the circular list")
				} else {
					c.bad(rule, key, bo.Pos(), "a tube index reduced modulo the ring size is used as "+bad+", not just to address a slot: the hit a tube emits carries Diagonal = Tlen - tubeIndex*TubeOffset, so a reduced index reports the match a whole ring (cap*TubeOffset diagonals) away from where it is")
				}
			}
		}
	}
	if n == 0 {
		c.und(rule, "filter/slot", token.NoPos, "no ring reduction found")
	}
}

// ---- intersectminmax (C15): an intersection takes the larger lower and the smaller upper end ----

func ruleIntersectMinMax(c *Ctx, rule string) {
	fn := c.fn("align/pals/dp", "(*kernel).alignRecursion")
	c.Funcs[funcName(fn)] = true
	fieldName := func(v ssa.Value) string {
		switch x := v.(type) {
		case *ssa.UnOp:
			if fa, ok := x.X.(*ssa.FieldAddr); ok && x.Op == token.MUL {
				return structFieldName(fa.X.Type(), fa.Field)
			}
		case *ssa.Field:
			return structFieldName(x.X.Type(), x.Field)
		}
		return ""
	}
	classify := func(v ssa.Value) (a, b string, kind string) {
		// util.Max/Min call
		if call, ok := v.(*ssa.Call); ok {
			if sf := call.Call.StaticCallee(); sf != nil && len(call.Call.Args) == 1 {
				// variadic util.Max(a, b)
				if vals := variadicValues(call.Call.Args[0]); len(vals) == 2 {
					switch sf.Name() {
					case "Max", "max":
						return fieldName(vals[0]), fieldName(vals[1]), "max"
					case "Min", "min":
						return fieldName(vals[0]), fieldName(vals[1]), "min"
					}
				}
			}
			if sf := call.Call.StaticCallee(); sf != nil && len(call.Call.Args) == 2 {
				switch sf.Name() {
				case "Max", "max":
					return fieldName(call.Call.Args[0]), fieldName(call.Call.Args[1]), "max"
				case "Min", "min":
					return fieldName(call.Call.Args[0]), fieldName(call.Call.Args[1]), "min"
				}
			}
		}
		// phi selected by a comparison of its two candidates
		phi, ok := v.(*ssa.Phi)
		if !ok || len(phi.Edges) != 2 {
			return "", "", ""
		}
		d := phi.Block().Idom()
		if d == nil {
			return "", "", ""
		}
		ifi, ok := d.Instrs[len(d.Instrs)-1].(*ssa.If)
		if !ok {
			return "", "", ""
		}
		bo, ok := ifi.Cond.(*ssa.BinOp)
		if !ok {
			return "", "", ""
		}
		x, y := fieldName(bo.X), fieldName(bo.Y)
		if x == "" || y == "" {
			return "", "", ""
		}
		// which candidate is taken when the condition holds?
		var onTrue ssa.Value
		for i, p := range phi.Block().Preds {
			if p == d.Succs[0] || (p == d && d.Succs[0] == phi.Block()) {
				onTrue = phi.Edges[i]
			}
		}
		if onTrue == nil {
			return x, y, ""
		}
		t := fieldName(onTrue)
		// cond X < Y: taking Y on true is max, taking X is min; cond X > Y: taking Y is min, X is max
		switch {
		case (bo.Op == token.LSS || bo.Op == token.LEQ) && t == y, (bo.Op == token.GTR || bo.Op == token.GEQ) && t == x:
			return x, y, "max"
		case (bo.Op == token.LSS || bo.Op == token.LEQ) && t == x, (bo.Op == token.GTR || bo.Op == token.GEQ) && t == y:
			return x, y, "min"
		}
		return x, y, ""
	}
	lows := map[string]bool{"Left": true, "LowDiagonal": true}
	highs := map[string]bool{"Right": true, "HighDiagonal": true}
	n := 0
	seen := map[ssa.Value]bool{}
	var blocks []*ssa.BasicBlock
	for _, g := range privateReach(fn) {
		blocks = append(blocks, g.Blocks...)
	}
	for _, b := range blocks {
		for _, ins := range b.Instrs {
			v, ok := ins.(ssa.Value)
			if !ok || seen[v] {
				continue
			}
			a, bb, kind := classify(v)
			if a == "" || bb == "" {
				continue
			}
			var want string
			switch {
			case lows[a] && lows[bb] && a != bb:
				want = "max"
			case highs[a] && highs[bb] && a != bb:
				want = "min"
			default:
				continue
			}
			seen[v] = true
			n++
			key := fmt.Sprintf("%s/intersection-%s-of-%s-and-%s", funcName(fn), want, a, bb)
			switch kind {
			case want:
				c.ok(rule, key, v.Pos(), "the "+want+" of the two ends is taken")
			case "":
				c.und(rule, key, v.Pos(), "the selection between "+a+" and "+bb+" was not recognised as a min or a max")
			default:
				c.bad(rule, key, v.Pos(), "the "+kind+" of "+a+" and "+bb+" is taken where the intersection of the trapezoid's diagonal range with the hit's band needs the "+want+": a trapezoid beside the hit counts as covered by it, is marked covered and never aligned, so the repeat it holds is lost")
			}
		}
	}
	if n == 0 {
		c.und(rule, funcName(fn)+"/intersection", fn.Pos(), "no selection between the trapezoid's and the hit's diagonal ends found")
	}
}

// ---- stalecount (C15): the result is sized after the last change of the count ----

func ruleStaleCount(c *Ctx, rule string) {
	pkg := modPath + "/align/pals/filter"
	fn := c.fn("align/pals/filter", "(*Merger).FinaliseMerge")
	c.Funcs[funcName(fn)] = true
	key := funcName(fn) + "/result-sized-from-final-count"
	sp := fn.Pkg
	writesCount := map[*ssa.Function]bool{}
	for changed := true; changed; {
		changed = false
		for _, g := range srcFuncs(sp) {
			if writesCount[g] {
				continue
			}
			for _, b := range g.Blocks {
				for _, ins := range b.Instrs {
					switch x := ins.(type) {
					case *ssa.Store:
						if name, ok := fieldOf(x.Addr, pkg, "Merger"); ok && name == "trapCount" {
							writesCount[g] = true
							changed = true
						}
					case *ssa.Call:
						if h := x.Call.StaticCallee(); h != nil && writesCount[h] && !writesCount[g] {
							writesCount[g] = true
							changed = true
						}
					}
				}
			}
		}
	}
	var mk *ssa.MakeSlice
	for _, b := range fn.Blocks {
		for _, ins := range b.Instrs {
			if m, ok := ins.(*ssa.MakeSlice); ok && loadOfField(m.Len, pkg, "Merger", "trapCount") {
				mk = m
			}
		}
	}
	if mk == nil {
		c.und(rule, key, fn.Pos(), "the result is not made with length m.trapCount")
		return
	}
	var later ssa.Instruction
	for _, b := range fn.Blocks {
		for _, ins := range b.Instrs {
			isW := false
			switch x := ins.(type) {
			case *ssa.Store:
				if name, ok := fieldOf(x.Addr, pkg, "Merger"); ok && name == "trapCount" {
					isW = true
				}
			case *ssa.Call:
				if h := x.Call.StaticCallee(); h != nil && writesCount[h] {
					isW = true
				}
			}
			if isW && reachesInstr(mk, ins) {
				later = ins
			}
		}
	}
	if later != nil {
		c.bad(rule, key, mk.Pos(), "the result slice is made with the trapezoid count read before "+c.pos(later.Pos())+", where the count can still grow (clipping splits a trapezoid at a run of non-ACGT letters): the trapezoids added by the split push others off the end of the result, and those are never aligned")
	} else {
		c.ok(rule, key, mk.Pos(), "nothing changes the trapezoid count between sizing the result and filling it")
	}
}

// ---- pileimages / overlapclosed (C16) ----

func rulePileImages(c *Ctx, rule string) {
	sp := c.SPkgs[c.pkg("align/pals").PkgPath]
	n := 0
	// Piles, its closures, and the private helpers they hand the intervals to
	scope := map[*ssa.Function]bool{}
	for _, fn := range srcFuncs(sp) {
		root := fn
		for root.Parent() != nil {
			root = root.Parent()
		}
		if funcName(root) == "pals.(*Piler).Piles" {
			for _, g := range privateReach(fn) {
				scope[g] = true
			}
		}
	}
	for _, fn := range srcFuncs(sp) {
		if !scope[fn] {
			continue
		}
		for _, b := range fn.Blocks {
			for _, ins := range b.Instrs {
				st, ok := ins.(*ssa.Store)
				if !ok {
					continue
				}
				fa, ok := st.Addr.(*ssa.FieldAddr)
				if !ok || structFieldName(fa.X.Type(), fa.Field) != "Images" {
					continue
				}
				n++
				c.Funcs[funcName(fn)] = true
				key := fmt.Sprintf("%s/Images#%d", funcName(fn), n)
				// the stored value must not be (a slice of) the interval's own image list
				v := st.Val
				for {
					if sl, ok := v.(*ssa.Slice); ok {
						v = sl.X
						continue
					}
					break
				}
				internal := false
				if u, ok := v.(*ssa.UnOp); ok && u.Op == token.MUL {
					if f2, ok := u.X.(*ssa.FieldAddr); ok && structFieldName(f2.X.Type(), f2.Field) == "images" {
						internal = true
					}
				}
				if internal {
					c.bad(rule, key, st.Pos(), "the pile handed out shares the interval's own image list: the next filtered call rebuilds Images in place (Images[:0] + append) and thereby compacts the piler's list, so features disappear from their pile and others are listed twice")
				} else {
					c.ok(rule, key, st.Pos(), "the pile's image list is its own storage")
				}
			}
		}
	}
	if n == 0 {
		c.und(rule, "pals.(*Piler).Piles/Images", token.NoPos, "no assignment of a pile's Images found")
	}
}

// ruleOverlapClosed: the tree is queried through Overlap(IntRange); features
// that merely abut (one ends where the other starts) belong to one pile, so
// both comparisons of every Overlap method in package pals must be
// non-strict.
func ruleOverlapClosed(c *Ctx, rule string) {
	sp := c.SPkgs[c.pkg("align/pals").PkgPath]
	n := 0
	for _, fn := range srcFuncs(sp) {
		if fn.Name() != "Overlap" || fn.Signature.Recv() == nil {
			continue
		}
		n++
		c.Funcs[funcName(fn)] = true
		key := funcName(fn) + "/abutting-intervals-match"
		strict := ""
		cmps := 0
		undecided := false
		for _, b := range fn.Blocks {
			for _, ins := range b.Instrs {
				bo, ok := ins.(*ssa.BinOp)
				if !ok {
					continue
				}
				op := bo.Op
				switch op {
				case token.GTR, token.LSS, token.GEQ, token.LEQ:
				default:
					continue
				}
				// the comparison as it must hold for Overlap to answer true: a test that leads to `return false`
				// when it holds counts negated
				for _, r := range *bo.Referrers() {
					ifi, ok := r.(*ssa.If)
					if !ok {
						continue
					}
					t := mayReturnTrue(ifi.Block(), ifi.Block().Succs[0], map[*ssa.BasicBlock]bool{})
					f := mayReturnTrue(ifi.Block(), ifi.Block().Succs[1], map[*ssa.BasicBlock]bool{})
					switch {
					case t && !f:
					case f && !t:
						op = negateOp(op)
					default:
						undecided = true
					}
				}
				switch op {
				case token.GTR, token.LSS:
					strict = op.String()
					cmps++
				case token.GEQ, token.LEQ:
					cmps++
				}
			}
		}
		switch {
		case undecided:
			c.und(rule, key, fn.Pos(), "a comparison in Overlap does not decide the answer on its own")
		case cmps < 2:
			c.und(rule, key, fn.Pos(), "fewer than two comparisons in Overlap")
		case strict != "":
			c.bad(rule, key, fn.Pos(), "Overlap compares with "+strict+": an interval that ends exactly where the queried one starts does not match, so abutting features are not merged and stay in separate piles, although features linked by a chain of overlapping or abutting features share a pile")
		default:
			c.ok(rule, key, fn.Pos(), "both comparisons are non-strict: abutting intervals match")
		}
	}
	// the query used by merge must be one of these types
	if n == 0 {
		c.und(rule, "pals/Overlap", token.NoPos, "no Overlap method found")
	}
}

// mayReturnTrue: entering blk from prev, can a return be reached whose boolean result is not the constant false?
func mayReturnTrue(prev, blk *ssa.BasicBlock, seen map[*ssa.BasicBlock]bool) bool {
	if seen[blk] {
		return false
	}
	seen[blk] = true
	defer delete(seen, blk)
	switch last := blk.Instrs[len(blk.Instrs)-1].(type) {
	case *ssa.Return:
		if len(last.Results) != 1 {
			return true
		}
		r := last.Results[0]
		if phi, ok := r.(*ssa.Phi); ok && phi.Block() == blk {
			for i, p := range blk.Preds {
				if p == prev {
					r = phi.Edges[i]
				}
			}
		}
		if k, ok := r.(*ssa.Const); ok && k.Value != nil {
			return k.Value.String() != "false"
		}
		return true
	case *ssa.Panic:
		return false
	}
	for _, s := range blk.Succs {
		if mayReturnTrue(blk, s, seen) {
			return true
		}
	}
	return false
}

// ---- asciicheck / norunes (C17) ----

func ruleASCIICheck(c *Ctx, rule string) {
	fn := c.fn("alphabet", "NewPairing")
	c.Funcs[funcName(fn)] = true
	// does v derive from the string parameter p (range variable, indexed byte, rune conversion)?
	var derives func(v ssa.Value, p *ssa.Parameter, d int) bool
	derives = func(v ssa.Value, p *ssa.Parameter, d int) bool {
		if v == nil || d > 8 {
			return false
		}
		if v == ssa.Value(p) {
			return true
		}
		switch x := v.(type) {
		case *ssa.UnOp:
			return derives(x.X, p, d+1)
		case *ssa.IndexAddr:
			return derives(x.X, p, d+1)
		case *ssa.Index:
			return derives(x.X, p, d+1)
		case *ssa.Lookup:
			return derives(x.X, p, d+1)
		case *ssa.Extract:
			return derives(x.Tuple, p, d+1)
		case *ssa.Next:
			return derives(x.Iter, p, d+1)
		case *ssa.Range:
			return derives(x.X, p, d+1)
		case *ssa.Convert:
			return derives(x.X, p, d+1)
		case *ssa.ChangeType:
			return derives(x.X, p, d+1)
		case *ssa.Slice:
			return derives(x.X, p, d+1)
		case *ssa.Phi:
			for _, e := range x.Edges {
				if derives(e, p, d+1) {
					return true
				}
			}
		}
		return false
	}
	comparesASCII := func(f *ssa.Function, p *ssa.Parameter) bool {
		for _, b := range f.Blocks {
			for _, ins := range b.Instrs {
				bo, ok := ins.(*ssa.BinOp)
				if !ok || (bo.Op != token.GTR && bo.Op != token.GEQ && bo.Op != token.LSS && bo.Op != token.LEQ) {
					continue
				}
				if k, ok := constIntVal(bo.Y); ok && (k == 127 || k == 128) && derives(bo.X, p, 0) {
					return true
				}
				if k, ok := constIntVal(bo.X); ok && (k == 127 || k == 128) && derives(bo.Y, p, 0) {
					return true
				}
			}
		}
		for _, a := range f.AnonFuncs {
			_ = a
		}
		return false
	}
	for _, prm := range fn.Params {
		if bt, ok := prm.Type().Underlying().(*types.Basic); !ok || bt.Kind() != types.String {
			continue
		}
		key := funcName(fn) + "/" + prm.Name() + "-letters-compared-with-MaxASCII"
		checked := comparesASCII(fn, prm)
		if !checked {
			// through a helper that receives the string
			for _, b := range fn.Blocks {
				for _, ins := range b.Instrs {
					call, ok := ins.(*ssa.Call)
					if !ok {
						continue
					}
					g := call.Call.StaticCallee()
					if g == nil || !inModule(g) || g.Blocks == nil {
						continue
					}
					for i, a := range call.Call.Args {
						if a == ssa.Value(prm) && i < len(g.Params) && comparesASCII(g, g.Params[i]) {
							checked = true
						}
					}
				}
			}
		}
		if checked {
			c.ok(rule, key, fn.Pos(), "every letter of the definition string is compared with unicode.MaxASCII")
		} else {
			c.bad(rule, key, fn.Pos(), "the letters of definition string "+prm.Name()+" are never compared with unicode.MaxASCII: bytes >= 0x80 (also ill-formed UTF-8, which a rune count takes for single-byte runes) are accepted into the pairing, and the flagged complement table cannot represent them — method and table forms then disagree")
		}
	}
}

func ruleNoRunes(c *Ctx, rule string) {
	sp := c.SPkgs[c.pkg("alphabet").PkgPath]
	n := 0
	for _, fn := range srcFuncs(sp) {
		root := fn
		for root.Parent() != nil {
			root = root.Parent()
		}
		if root.Signature.Recv() == nil || !isNamed(root.Signature.Recv().Type(), sp.Pkg.Path(), "alpha") {
			continue
		}
		if fn.Parent() != nil {
			continue
		}
		n++
		c.Funcs[funcName(fn)] = true
		key := funcName(fn) + "/bytewise"
		bad := ""
		var scan func(f *ssa.Function)
		scan = func(f *ssa.Function) {
			for _, b := range f.Blocks {
				for _, ins := range b.Instrs {
					if call, ok := ins.(*ssa.Call); ok {
						if sf := call.Call.StaticCallee(); sf != nil && sf.Pkg != nil {
							p, nm := sf.Pkg.Pkg.Path(), sf.Name()
							if ((p == "bytes" || p == "strings") && (strings.HasSuffix(nm, "Func") || nm == "Runes" || nm == "Map" || nm == "IndexRune" || nm == "ContainsRune")) || p == "unicode/utf8" {
								bad = p + "." + nm
							}
						}
					}
					if _, ok := ins.(*ssa.Range); ok {
						bad = "a range over a string"
					}
				}
			}
			for _, a := range f.AnonFuncs {
				scan(a)
			}
		}
		scan(fn)
		if bad != "" {
			c.bad(rule, key, fn.Pos(), "the method goes through "+bad+", which decodes UTF-8: a letter is a byte, and a multi-byte sequence is then seen as one rune whose low byte may be a valid letter, so invalid bytes are accepted or the reported position is not the first invalid one")
		} else {
			c.ok(rule, key, fn.Pos(), "letters are handled byte by byte")
		}
	}
	if n == 0 {
		c.und(rule, "alphabet/alpha-methods", token.NoPos, "no methods of alpha found")
	}
}

// ---- clampfirst / decodeswitch (C18) ----

func ruleClampFirst(c *Ctx, rule string) {
	for _, t := range []struct {
		name      string
		needLower bool
	}{{"Ephred", false}, {"Esolexa", true}} {
		fn := c.fn("alphabet", t.name)
		c.Funcs[funcName(fn)] = true
		key := funcName(fn) + "/saturate-before-narrowing"
		var convs []*ssa.Convert
		for _, b := range fn.Blocks {
			for _, ins := range b.Instrs {
				if cv, ok := ins.(*ssa.Convert); ok {
					if bt, ok := cv.X.Type().Underlying().(*types.Basic); ok && bt.Info()&types.IsFloat != 0 && isIntegral(cv.Type()) {
						convs = append(convs, cv)
					}
				}
			}
		}
		if len(convs) == 0 {
			c.und(rule, key, fn.Pos(), "no float to score conversion")
			continue
		}
		constOf := func(v ssa.Value) (float64, bool) {
			k, ok := v.(*ssa.Const)
			if !ok || k.Value == nil {
				return 0, false
			}
			f, _ := constant.Float64Val(constant.ToFloat(k.Value))
			return f, true
		}
		// every conversion is judged; the worst one is reported
		upper, lower := true, true
		looseBound := math.NaN()
		var conv *ssa.Convert
		for _, cv := range convs {
			// the converted float is bounded: a phi with a constant edge, math.Min / math.Max with a
			// constant, or a dominating comparison with a constant of a value it is derived from by
			// adding constants and clamping (the sign test that chooses the half to add)
			up, lo := false, false
			// derived[v] = d: the converted value is v + d
			derived := map[ssa.Value]float64{}
			// the largest value an upper bound lets through, the smallest a lower bound does
			worstUp, worstLo := math.Inf(-1), math.Inf(1)
			noteUp := func(f float64) {
				up = true
				if f > worstUp {
					worstUp = f
				}
			}
			noteLo := func(f float64) {
				lo = true
				if f < worstLo {
					worstLo = f
				}
			}
			var walk func(v ssa.Value, d int, delta float64)
			walk = func(v ssa.Value, d int, delta float64) {
				if _, seen := derived[v]; d > 5 || seen {
					return
				}
				derived[v] = delta
				switch x := v.(type) {
				case *ssa.Phi:
					for _, e := range x.Edges {
						if f, ok := constOf(e); ok {
							if f > 0 {
								noteUp(f + delta)
							}
							if f < 0 {
								noteLo(f + delta)
							}
							continue
						}
						walk(e, d+1, delta)
					}
				case *ssa.BinOp:
					if x.Op == token.ADD || x.Op == token.SUB {
						if f, ok := constOf(x.Y); ok {
							if x.Op == token.SUB {
								f = -f
							}
							walk(x.X, d+1, delta+f)
						} else if f, ok := constOf(x.X); ok && x.Op == token.ADD {
							walk(x.Y, d+1, delta+f)
						}
					}
				case *ssa.Call:
					g := x.Call.StaticCallee()
					if g == nil || g.Pkg == nil || g.Pkg.Pkg.Path() != "math" {
						return
					}
					for _, a := range x.Call.Args {
						if f, ok := constOf(a); ok {
							if g.Name() == "Min" {
								noteUp(f + delta)
							}
							if g.Name() == "Max" {
								noteLo(f + delta)
							}
						} else if g.Name() == "Min" || g.Name() == "Max" {
							walk(a, d+1, delta)
						}
					}
				}
			}
			walk(cv.X, 0, 0)
			for _, bf := range branchesAt(cv.Block()) {
				var op token.Token
				var k, delta float64
				switch {
				case hasKey(derived, bf.cond.X):
					f, ok := constOf(bf.cond.Y)
					if !ok {
						continue
					}
					op, k, delta = effectiveOp(bf, true), f, derived[bf.cond.X]
				case hasKey(derived, bf.cond.Y):
					f, ok := constOf(bf.cond.X)
					if !ok {
						continue
					}
					op, k, delta = effectiveOp(bf, false), f, derived[bf.cond.Y]
				default:
					continue
				}
				switch op {
				case token.LSS, token.LEQ:
					noteUp(k + delta)
				case token.GTR, token.GEQ:
					noteLo(k + delta)
				}
			}
			// a bound that still lets a value through that the score type cannot hold (or, for the Phred
			// score, 255 — the score of NaN) is no saturation
			maxOK, minOK := 255.0, -129.0
			if t.needLower {
				maxOK = 128
			}
			if up && worstUp >= maxOK {
				up = false
				looseBound = worstUp
			}
			if lo && worstLo <= minOK {
				lo = false
			}
			if !up || (t.needLower && !lo) || conv == nil {
				conv = cv
			}
			upper, lower = upper && up, lower && lo
		}
		switch {
		case upper && (lower || !t.needLower):
			c.ok(rule, key, conv.Pos(), "the score is saturated as a float, before the conversion to the one-byte score")
		case t.needLower && upper:
			c.bad(rule, key, conv.Pos(), "the float score is saturated above but not below before it is converted to the signed one-byte score: for an error probability within about 2e-13 of 1 the analytic score is below -128 and the conversion wraps (or is implementation-defined), so the score returned is not the nearest representable one")
		case t.needLower:
			c.bad(rule, key, conv.Pos(), "the float score is converted to the signed one-byte score without being saturated: for an error probability within about 2e-13 of 0 or of 1 the analytic score lies outside -128..127 and the conversion wraps (or is implementation-defined) — Esolexa(0.9999999999999998) is 99 — so the score returned is not the nearest representable one and a smaller probability can get a smaller score")
		case !math.IsNaN(looseBound):
			c.bad(rule, key, conv.Pos(), fmt.Sprintf("the float handed to the conversion is only known to be at most %v: the test that saturates the score looks at it before the half is added (or compares with the wrong limit), so a score just under the limit rounds up to 255 — the score reserved for NaN — or wraps, instead of saturating at 254", looseBound))
		default:
			c.bad(rule, key, conv.Pos(), "the float score is converted to the one-byte score before it is saturated: values of 256 and more wrap (or are implementation-defined) in the conversion, so the later test can no longer see them and a tiny error probability is given a low score — a smaller probability then means a smaller score")
		}
	}
}

// condLooksAt: the condition is a comparison of e, or what a call that is
// handed e answered (ok of e.phredOffset()), possibly negated or combined.
func condLooksAt(cond ssa.Value, e ssa.Value, depth int) bool {
	if depth > 4 {
		return false
	}
	switch x := cond.(type) {
	case *ssa.BinOp:
		return x.X == e || x.Y == e || condLooksAt(x.X, e, depth+1) || condLooksAt(x.Y, e, depth+1)
	case *ssa.UnOp:
		return x.Op == token.NOT && condLooksAt(x.X, e, depth+1)
	case *ssa.Extract:
		return condLooksAt(x.Tuple, e, depth+1)
	case *ssa.Call:
		for _, a := range x.Call.Args {
			if a == e {
				return true
			}
		}
	case *ssa.Phi:
		for _, ed := range x.Edges {
			if condLooksAt(ed, e, depth+1) {
				return true
			}
		}
	}
	return false
}

func ruleDecodeSwitch(c *Ctx, rule string) {
	pkg := modPath + "/alphabet"
	for _, name := range []string{"Encoding.DecodeToQphred", "Encoding.DecodeToQsolexa"} {
		fn := c.fn("alphabet", name)
		c.Funcs[funcName(fn)] = true
		key := funcName(fn) + "/every-return-under-an-encoding-case"
		e := fn.Params[0]
		var bad *ssa.Return
		for _, r := range returnsOf(fn) {
			under := false
			for d := r.Block(); d != nil; d = d.Idom() {
				if d == r.Block() {
					continue
				}
				if ifi, ok := d.Instrs[len(d.Instrs)-1].(*ssa.If); ok {
					if condLooksAt(ifi.Cond, e, 0) {
						under = true
					}
				}
			}
			// the default (panic) arm has no return; a return reached without any test of e is independent of the encoding
			if !under {
				bad = r
			}
		}
		_ = pkg
		if bad != nil {
			c.bad(rule, key, bad.Pos(), "a decoded value is returned without the encoding having been looked at: a byte is mapped to a fixed score whatever the encoding, but '~' and ' ' are the markers Encode writes only for the special scores, and '~' is also the printable encoding of a real score (Solexa 62, Phred 93 under +33), which then no longer decodes to itself")
		} else {
			c.ok(rule, key, fn.Pos(), "every return is reached through a comparison of the encoding")
		}
	}
}

// ---- tokencap / operationrecover (C19) ----

func ruleTokenCap(c *Ctx, rule string) {
	pkg := modPath + "/concurrent"
	fn := c.fn("concurrent", "NewProcessor")
	c.Funcs[funcName(fn)] = true
	key := funcName(fn) + "/one-thread-count"
	// the capacity of the work channel
	var capV ssa.Value
	for _, b := range fn.Blocks {
		for _, ins := range b.Instrs {
			if st, ok := ins.(*ssa.Store); ok {
				if name, ok := fieldOf(st.Addr, pkg, "Processor"); ok && name == "work" {
					if mk, ok := st.Val.(*ssa.MakeChan); ok {
						capV = mk.Size
					}
				}
			}
		}
	}
	if capV == nil {
		c.und(rule, key, fn.Pos(), "the work channel is not made in NewProcessor")
		return
	}
	// bounds of the loops that send tokens / start workers
	var bounds []ssa.Value
	for _, l := range naturalLoops(fn) {
		does := false
		for b := range l.body {
			for _, ins := range b.Instrs {
				switch x := ins.(type) {
				case *ssa.Send:
					if loadOfField(x.Chan, pkg, "Processor", "work") {
						does = true
					}
				case *ssa.Go:
					does = true
				}
			}
		}
		if !does {
			continue
		}
		if ifi, ok := l.head.Instrs[len(l.head.Instrs)-1].(*ssa.If); ok {
			if bo, ok := ifi.Cond.(*ssa.BinOp); ok {
				bounds = append(bounds, bo.Y)
			}
		}
	}
	if len(bounds) < 2 {
		c.und(rule, key, fn.Pos(), "the token and worker loops were not found")
		return
	}
	strip := func(v ssa.Value) ssa.Value {
		for {
			if cv, ok := v.(*ssa.Convert); ok {
				v = cv.X
				continue
			}
			return v
		}
	}
	for _, bd := range bounds {
		if strip(bd) != strip(capV) {
			c.bad(rule, key, fn.Pos(), "the token channel is made with capacity "+symName(capV, nil)+" but tokens are sent / workers started up to "+symName(bd, nil)+", a different value (the thread count before and after it is limited to GOMAXPROCS): for a count below 1 the capacity is 0 and the first token send blocks in the constructor, and for a large count Working() is wrong")
			return
		}
	}
	c.ok(rule, key, fn.Pos(), "the token channel's capacity, the number of tokens and the number of workers are one value")
}

func ruleOperationRecover(c *Ctx, rule string) {
	sp := c.SPkgs[c.pkg("concurrent").PkgPath]
	n := 0
	for _, fn := range srcFuncs(sp) {
		for _, b := range fn.Blocks {
			for _, ins := range b.Instrs {
				call, ok := ins.(*ssa.Call)
				if !ok || !call.Call.IsInvoke() || call.Call.Method.Name() != "Operation" {
					continue
				}
				n++
				c.Funcs[funcName(fn)] = true
				key := fmt.Sprintf("%s/Operation#%d", funcName(fn), n)
				recovers := protectedByRecover(fn, srcFuncs(sp), 0)
				if recovers {
					c.ok(rule, key, call.Pos(), "the operation runs in a function that recovers a panic into an error result")
				} else {
					c.bad(rule, key, call.Pos(), "an Operation is called outside the worker's recover handler: if it panics, the panic reaches the caller instead of becoming that operation's error result (and no result is delivered for it)")
				}
			}
		}
	}
	if n == 0 {
		c.und(rule, "concurrent/Operation", token.NoPos, "no Operation call found")
	}
}

// protectedByRecover: fn defers a function that calls recover, or fn is a private function every call of which
// is made (as a plain call, on the same goroutine) from a function that is.
func protectedByRecover(fn *ssa.Function, all []*ssa.Function, depth int) bool {
	for _, bb := range fn.Blocks {
		for _, in := range bb.Instrs {
			d, ok := in.(*ssa.Defer)
			if !ok {
				continue
			}
			var df *ssa.Function
			if mc, ok := d.Call.Value.(*ssa.MakeClosure); ok {
				df, _ = mc.Fn.(*ssa.Function)
			} else {
				df = d.Call.StaticCallee()
			}
			if df == nil {
				continue
			}
			for _, db := range df.Blocks {
				for _, di := range db.Instrs {
					if rc, ok := di.(*ssa.Call); ok && builtinCall(rc, "recover") != nil {
						return true
					}
				}
			}
		}
	}
	if depth > 3 || fn.Object() == nil || fn.Object().Exported() {
		return false
	}
	sites := 0
	for _, g := range all {
		for _, b := range g.Blocks {
			for _, ins := range b.Instrs {
				ci, ok := ins.(ssa.CallInstruction)
				if !ok || ci.Common().StaticCallee() != fn {
					continue
				}
				sites++
				if _, plain := ins.(*ssa.Call); !plain {
					return false // started as a goroutine or deferred: nothing above it on the stack recovers
				}
				if !protectedByRecover(g, all, depth+1) {
					return false
				}
			}
		}
	}
	return sites > 0
}

// ---- intronperpair / locpairwise (C20) ----

func ruleIntronPerPair(c *Ctx, rule string) {
	fn := c.fn("feat/gene", "Exons.Introns")
	c.Funcs[funcName(fn)] = true
	key := funcName(fn) + "/one-intron-per-neighbouring-pair"
	var ap *ssa.Call
	for _, b := range fn.Blocks {
		for _, ins := range b.Instrs {
			if call, ok := ins.(*ssa.Call); ok && builtinCall(call, "append") != nil {
				ap = call
			}
		}
	}
	var loop *ssaLoop
	if ap != nil {
		for _, l := range naturalLoops(fn) {
			if l.body[ap.Block()] {
				loop = l
			}
		}
	}
	if ap == nil || loop == nil {
		c.und(rule, key, fn.Pos(), "no append inside a loop")
		return
	}
	// the append runs on every iteration: its block dominates every latch of the loop
	every := true
	for _, p := range loop.head.Preds {
		if loop.body[p] && !ap.Block().Dominates(p) {
			every = false
		}
	}
	if !every {
		// a loop over all exons that only skips the first one (which has no predecessor) is the same thing:
		// remove the edges taken when the counter equals its initial value 0 and look again
		skipFirst := func(bf branchFact) bool {
			k, isK := constIntVal(bf.cond.Y)
			if !isK || k != 0 || effectiveOp(bf, true) != token.EQL {
				return false
			}
			phi, off, ok := linearIn(bf.cond.X)
			if !ok || phi.Block() != loop.head {
				return false
			}
			for i, pr := range loop.head.Preds {
				if !loop.body[pr] {
					init, isK := constIntVal(phi.Edges[i])
					if !isK || init+off != 0 {
						return false
					}
				}
			}
			return true
		}
		seen := map[*ssa.BasicBlock]bool{}
		var walk func(b *ssa.BasicBlock) bool // true: the header is reached again without the append
		walk = func(b *ssa.BasicBlock) bool {
			if b == loop.head {
				return true
			}
			if !loop.body[b] || seen[b] || b == ap.Block() {
				return false
			}
			seen[b] = true
			var bo *ssa.BinOp
			if ifi, ok := b.Instrs[len(b.Instrs)-1].(*ssa.If); ok {
				bo, _ = ifi.Cond.(*ssa.BinOp)
			}
			for e, sc := range b.Succs {
				if bo != nil && skipFirst(branchFact{bo, e}) {
					continue
				}
				if walk(sc) {
					return true
				}
			}
			return false
		}
		every = true
		for _, sc := range loop.head.Succs {
			if loop.body[sc] && walk(sc) {
				every = false
			}
		}
	}
	if every {
		c.ok(rule, key, ap.Pos(), "an intron is appended for every pair of neighbouring exons, also a zero-length one for abutting exons")
	} else {
		c.bad(rule, key, ap.Pos(), "the intron is appended only on some iterations: abutting exons get no (zero-length) intron, so there are fewer than len(exons)-1 introns and exons and introns no longer alternate one to one across the transcript")
	}
}

func ruleLocPairwise(c *Ctx, rule string) {
	fn := c.fn("feat/gene", "Exons.Add")
	c.Funcs[funcName(fn)] = true
	key := funcName(fn) + "/locations-of-result-compared"
	// the result slice: the value returned together with a nil error
	var result ssa.Value
	for _, r := range returnsOf(fn) {
		if len(r.Results) == 2 && isNilConst(r.Results[1]) {
			result = r.Results[0]
		}
	}
	if result == nil {
		c.und(rule, key, fn.Pos(), "no successful return")
		return
	}
	isResultElem := func(v ssa.Value) bool {
		call, ok := v.(*ssa.Call)
		if !ok {
			return false
		}
		sf := call.Call.StaticCallee()
		if sf == nil || sf.Name() != "Location" || len(call.Call.Args) != 1 {
			return false
		}
		ld, ok := call.Call.Args[0].(*ssa.UnOp)
		if !ok || ld.Op != token.MUL {
			return false
		}
		ia, ok := ld.X.(*ssa.IndexAddr)
		return ok && ia.X == result
	}
	n := 0
	for _, b := range fn.Blocks {
		ifi, ok := b.Instrs[len(b.Instrs)-1].(*ssa.If)
		if !ok {
			continue
		}
		bo, ok := ifi.Cond.(*ssa.BinOp)
		if !ok || (bo.Op != token.NEQ && bo.Op != token.EQL) {
			continue
		}
		if isResultElem(bo.X) && isResultElem(bo.Y) {
			for _, succ := range b.Succs {
				if rejectsFrom(b, succ) {
					n++
				}
			}
		}
	}
	// the comparison may be made by a private helper that is handed the result (checkAdjacent(newSlice)) and
	// whose error Add turns into a rejection
	if n == 0 {
		for _, b := range fn.Blocks {
			for _, ins := range b.Instrs {
				call, ok := ins.(*ssa.Call)
				if !ok {
					continue
				}
				h := call.Call.StaticCallee()
				if h == nil || h.Pkg != fn.Pkg || h.Blocks == nil || h == fn || (h.Object() != nil && h.Object().Exported()) {
					continue
				}
				// Add rejects when the helper reports an error
				rejects := false
				for _, r := range *call.Referrers() {
					if bo, ok := r.(*ssa.BinOp); ok && bo.Op == token.NEQ && (isNilConst(bo.X) || isNilConst(bo.Y)) {
						for _, rr := range *bo.Referrers() {
							if ifi, ok := rr.(*ssa.If); ok && rejectsFrom(ifi.Block(), ifi.Block().Succs[0]) {
								rejects = true
							}
						}
					}
				}
				if !rejects {
					continue
				}
				for pi, a := range call.Call.Args {
					if a != result || pi >= len(h.Params) {
						continue
					}
					prm := h.Params[pi]
					isElem := func(v ssa.Value) bool {
						lc, ok := v.(*ssa.Call)
						if !ok {
							return false
						}
						sf := lc.Call.StaticCallee()
						if sf == nil || sf.Name() != "Location" || len(lc.Call.Args) != 1 {
							return false
						}
						ld, ok := lc.Call.Args[0].(*ssa.UnOp)
						if !ok || ld.Op != token.MUL {
							return false
						}
						ia, ok := ld.X.(*ssa.IndexAddr)
						return ok && ia.X == ssa.Value(prm)
					}
					for _, hb := range h.Blocks {
						ifi, ok := hb.Instrs[len(hb.Instrs)-1].(*ssa.If)
						if !ok {
							continue
						}
						bo, ok := ifi.Cond.(*ssa.BinOp)
						if !ok || (bo.Op != token.NEQ && bo.Op != token.EQL) {
							continue
						}
						if isElem(bo.X) && isElem(bo.Y) {
							for _, succ := range hb.Succs {
								if rejectsFrom(hb, succ) {
									n++
								}
							}
						}
					}
				}
			}
		}
	}
	if n > 0 {
		c.ok(rule, key, fn.Pos(), "neighbouring exons of the sorted result are rejected when their locations differ")
	} else {
		c.bad(rule, key, fn.Pos(), "no rejection compares the locations of two exons of the result: a check against a running reference that adopts the first non-nil location lets unlocated (or differently located) exons that come first slip through, so a foreign-location update replaces the previous exon set instead of being rejected")
	}
}

func hasKey(m map[ssa.Value]float64, v ssa.Value) bool {
	_, ok := m[v]
	return ok
}
