// Shared plumbing: loading /repo, obligations, known findings, evidence.
package main

import (
	"encoding/json"
	"fmt"
	"go/ast"
	"go/token"
	"go/types"
	"os"
	"path/filepath"
	"sort"
	"strings"

	"golang.org/x/tools/go/packages"
	"golang.org/x/tools/go/ssa"
	"golang.org/x/tools/go/ssa/ssautil"
)

const modPath = "github.com/biogo/biogo"

// Verdicts of an obligation.
const (
	OK        = "ok"
	VIOLATION = "violation"
	UNDECIDED = "undecided"
)

// An Obligation is one rule instance on one construct of /repo.
type Obligation struct {
	Rule       string `json:"rule"`
	Key        string `json:"key"` // pkg.Func/what — never a line number
	Pos        string `json:"pos"`
	Verdict    string `json:"verdict"`
	Reason     string `json:"reason"`
	NonTrivial bool   `json:"nontrivial"` // needed a path/dominance/flow/table argument
	Config     string `json:"config,omitempty"`
}

// Ctx is the state of one rule run over one load of the repository.
type Ctx struct {
	Prop   string
	Tier   string
	Config string // build configuration label
	Repo   string

	Fset  *token.FileSet
	Pkgs  map[string]*packages.Package // by import path
	Prog  *ssa.Program
	SPkgs map[string]*ssa.Package

	Obs       []Obligation
	Funcs     map[string]bool // functions analysed
	PkgsUsed  map[string]bool
	Notes     []string
	floorFail []string
	VTA       bool // refine call graphs with VTA (thorough)
	cg        *cgraph
}

type loadSpec struct {
	GOARCH string
	Tags   string
	Label  string
}

// load type-checks /repo's current working tree (optionally with overlay
// replacements) and builds SSA. Any error is a hard failure.
func load(repo string, spec loadSpec, overlay map[string][]byte) (*Ctx, error) {
	env := append(os.Environ(), "GOFLAGS=-mod=mod", "GOPROXY=off", "GOSUMDB=off", "GOTOOLCHAIN=local", "GOWORK=off")
	if spec.GOARCH != "" {
		env = append(env, "GOARCH="+spec.GOARCH, "CGO_ENABLED=0")
	}
	cfg := &packages.Config{
		Mode:    packages.LoadAllSyntax,
		Dir:     repo,
		Env:     env,
		Overlay: overlay,
	}
	if spec.Tags != "" {
		cfg.BuildFlags = []string{"-tags=" + spec.Tags}
	}
	pkgs, err := packages.Load(cfg, "./...")
	if err != nil {
		return nil, fmt.Errorf("packages.Load: %v", err)
	}
	if len(pkgs) == 0 {
		return nil, fmt.Errorf("no packages loaded from %s", repo)
	}
	var errs []string
	packages.Visit(pkgs, nil, func(p *packages.Package) {
		for _, e := range p.Errors {
			errs = append(errs, e.Error())
		}
	})
	if len(errs) > 0 {
		if len(errs) > 8 {
			errs = errs[:8]
		}
		return nil, fmt.Errorf("type/load errors: %s", strings.Join(errs, "; "))
	}
	c := &Ctx{Repo: repo, Config: spec.Label, Pkgs: map[string]*packages.Package{}, SPkgs: map[string]*ssa.Package{},
		Funcs: map[string]bool{}, PkgsUsed: map[string]bool{}}
	n := 0
	for _, p := range pkgs {
		if strings.HasPrefix(p.PkgPath, modPath) {
			n++
		}
		c.Fset = p.Fset
	}
	if n < 30 {
		return nil, fmt.Errorf("only %d module packages loaded (expected >= 30)", n)
	}
	prog, _ := ssautil.AllPackages(pkgs, ssa.InstantiateGenerics)
	prog.Build()
	c.Prog = prog
	packages.Visit(pkgs, nil, func(p *packages.Package) {
		c.Pkgs[p.PkgPath] = p
		if sp := prog.Package(p.Types); sp != nil {
			c.SPkgs[p.PkgPath] = sp
		}
	})
	return c, nil
}

// ---- lookup helpers ------------------------------------------------------

type anchorErr struct{ msg string }

func (e anchorErr) Error() string { return e.msg }

// missing aborts the current rule with UNDECIDED: a named anchor no longer
// resolves, so the rule cannot be decided (never a VIOLATION).
func (c *Ctx) missing(format string, a ...interface{}) {
	panic(anchorErr{fmt.Sprintf(format, a...)})
}

func (c *Ctx) pkg(short string) *packages.Package {
	path := modPath
	if short != "" {
		path += "/" + short
	}
	p := c.Pkgs[path]
	if p == nil {
		c.missing("package %s not found", path)
	}
	c.PkgsUsed[path] = true
	return p
}

// obj resolves "Name", "T.Method" or "(*T).Method" in a module package.
func (c *Ctx) obj(short, name string) types.Object {
	p := c.pkg(short)
	recv, meth := "", ""
	n := name
	if strings.HasPrefix(n, "(*") {
		i := strings.Index(n, ").")
		recv, meth = n[2:i], n[i+2:]
	} else if i := strings.Index(n, "."); i >= 0 {
		recv, meth = n[:i], n[i+1:]
	}
	if recv == "" {
		o := p.Types.Scope().Lookup(n)
		if o == nil {
			c.missing("%s.%s not found", short, name)
		}
		return o
	}
	to := p.Types.Scope().Lookup(recv)
	if to == nil {
		c.missing("%s.%s: type %s not found", short, name, recv)
	}
	o, _, _ := types.LookupFieldOrMethod(types.NewPointer(to.Type()), true, p.Types, meth)
	if o == nil {
		c.missing("%s.%s not found", short, name)
	}
	return o
}

func (c *Ctx) tryObj(short, name string) (o types.Object) {
	defer func() {
		if r := recover(); r != nil {
			if _, ok := r.(anchorErr); ok {
				o = nil
				return
			}
			panic(r)
		}
	}()
	return c.obj(short, name)
}

// fn returns the SSA function for a named function or method.
func (c *Ctx) fn(short, name string) *ssa.Function {
	o := c.obj(short, name)
	f, ok := o.(*types.Func)
	if !ok {
		c.missing("%s.%s is not a function", short, name)
	}
	sf := c.Prog.FuncValue(f)
	if sf == nil || sf.Blocks == nil {
		c.missing("%s.%s has no SSA body", short, name)
	}
	c.Funcs[short+"."+name] = true
	return sf
}

// decl returns the FuncDecl (and its package) for a named function/method.
func (c *Ctx) decl(short, name string) (*ast.FuncDecl, *packages.Package) {
	o := c.obj(short, name)
	p := c.pkg(short)
	for _, f := range p.Syntax {
		for _, d := range f.Decls {
			if fd, ok := d.(*ast.FuncDecl); ok && p.TypesInfo.Defs[fd.Name] == o {
				if fd.Body == nil {
					c.missing("%s.%s has no body", short, name)
				}
				c.Funcs[short+"."+name] = true
				return fd, p
			}
		}
	}
	c.missing("%s.%s: declaration not found", short, name)
	return nil, nil
}

// funcName gives "pkg.(*T).M" style names relative to the module.
func funcName(f *ssa.Function) string {
	if f == nil {
		return "?"
	}
	p := f.Pkg
	for x := f; p == nil && x != nil; x = x.Parent() {
		p = x.Pkg
	}
	if p == nil {
		if o := f.Origin(); o != nil {
			p = o.Pkg
		}
	}
	if p == nil {
		return f.String()
	}
	return p.Pkg.Name() + "." + f.RelString(p.Pkg)
}

func shortPkg(path string) string {
	if path == modPath {
		return "biogo"
	}
	return strings.TrimPrefix(path, modPath+"/")
}

func (c *Ctx) pos(p token.Pos) string {
	if !p.IsValid() {
		return "-"
	}
	pp := c.Fset.PositionFor(p, false)
	rel, err := filepath.Rel(c.Repo, pp.Filename)
	if err != nil || strings.HasPrefix(rel, "..") {
		rel = pp.Filename
	}
	return fmt.Sprintf("%s:%d", rel, pp.Line)
}

func (c *Ctx) add(rule, key string, p token.Pos, verdict, reason string, nontrivial bool) {
	c.Obs = append(c.Obs, Obligation{Rule: rule, Key: key, Pos: c.pos(p), Verdict: verdict, Reason: reason, NonTrivial: nontrivial, Config: c.Config})
}

func (c *Ctx) ok(rule, key string, p token.Pos, reason string) { c.add(rule, key, p, OK, reason, true) }
func (c *Ctx) bad(rule, key string, p token.Pos, reason string) {
	c.add(rule, key, p, VIOLATION, reason, true)
}
func (c *Ctx) und(rule, key string, p token.Pos, reason string) {
	c.add(rule, key, p, UNDECIDED, reason, true)
}
func (c *Ctx) triv(rule, key string, p token.Pos, reason string) {
	c.add(rule, key, p, OK, reason, false)
}

// floor records that rule must have produced at least n obligations; fewer
// means the rule's anchors no longer match and the run is UNDECIDED.
func (c *Ctx) floor(rule string, n int) {
	got := 0
	for _, o := range c.Obs {
		if o.Rule == rule || strings.HasPrefix(o.Rule, rule+"/") {
			got++
		}
	}
	if got < n {
		c.floorFail = append(c.floorFail, fmt.Sprintf("rule %s matched %d instances, floor is %d", rule, got, n))
	}
}

// guard runs one rule, converting a missing anchor into an UNDECIDED
// obligation and any other panic into an internal error (exit 2).
func (c *Ctx) guard(rule string, f func()) {
	defer func() {
		if r := recover(); r != nil {
			if a, ok := r.(anchorErr); ok {
				c.und(rule, "anchor", token.NoPos, "anchor missing: "+a.msg)
				return
			}
			panic(r)
		}
	}()
	f()
}

// ---- known findings ----------------------------------------------------------

type knownFinding struct {
	Prop, Rule, Key, What string
}

func readKnown(path string) (open []knownFinding, fixed []string, err error) {
	b, err := os.ReadFile(path)
	if err != nil {
		if os.IsNotExist(err) {
			return nil, nil, nil
		}
		return nil, nil, err
	}
	for _, ln := range strings.Split(string(b), "\n") {
		ln = strings.TrimSpace(ln)
		if ln == "" || strings.HasPrefix(ln, "#") {
			continue
		}
		switch {
		case strings.HasPrefix(ln, "open:"):
			k := knownFinding{}
			rest := strings.TrimSpace(strings.TrimPrefix(ln, "open:"))
			for i := 0; i < 3; i++ {
				sp := strings.IndexAny(rest, " \t")
				tok := rest
				if sp >= 0 {
					tok, rest = rest[:sp], strings.TrimSpace(rest[sp:])
				} else {
					rest = ""
				}
				switch {
				case strings.HasPrefix(tok, "property="):
					k.Prop = strings.TrimPrefix(tok, "property=")
				case strings.HasPrefix(tok, "rule="):
					k.Rule = strings.TrimPrefix(tok, "rule=")
				case strings.HasPrefix(tok, "key="):
					k.Key = strings.TrimPrefix(tok, "key=")
				}
			}
			k.What = rest
			if k.Prop == "" || k.Rule == "" || k.Key == "" {
				return nil, nil, fmt.Errorf("known_findings: malformed open line %q", ln)
			}
			open = append(open, k)
		case strings.HasPrefix(ln, "fixed:"):
			fixed = append(fixed, ln)
		default:
			return nil, nil, fmt.Errorf("known_findings: unrecognised line %q", ln)
		}
	}
	return open, fixed, nil
}

// ---- evidence ---------------------------------------------------------------

type evidence struct {
	PropertyID  string                 `json:"property_id"`
	Tier        string                 `json:"tier"`
	Seed        int                    `json:"seed"`
	Level       string                 `json:"level"`
	Coverage    map[string]interface{} `json:"coverage"`
	Assumptions []string               `json:"assumptions"`
	WallS       float64                `json:"wall_s"`
	Violations  int                    `json:"violations"`
}

func writeJSON(path string, v interface{}) error {
	b, err := json.MarshalIndent(v, "", " ")
	if err != nil {
		return err
	}
	if err := os.MkdirAll(filepath.Dir(path), 0o755); err != nil {
		return err
	}
	return os.WriteFile(path, append(b, '\n'), 0o644)
}

func sortedKeys(m map[string]bool) []string {
	var s []string
	for k := range m {
		s = append(s, k)
	}
	sort.Strings(s)
	return s
}
