package main

// Benign rewrites for the rules added after the eighth round of seeded changes.
func init() {
	const (
		gff   = "io/featio/gff/gff.go"
		utils = "seq/sequtils/utils.go"
		kmer  = "index/kmerindex/kmerindex.go"
		nwL   = "align/nw_letters.go"
		nwQ   = "align/nw_qletters.go"
	)
	add := func(prop string, vs ...variant) { selftests[prop] = append(selftests[prop], vs...) }

	add("C02",
		variant{Name: "benign-gff-tab-first-then-attributes", File: gff, Find: "\t\tif f.FeatAttributes != nil {\n\t\t\t_n, err = fmt.Fprintf(w.w, \"\\t%v\", f.FeatAttributes)\n\t\t\tn += _n\n\t\t\tif err != nil {\n\t\t\t\treturn n, err\n\t\t\t}\n\t\t} else if f.Comments != \"\" {\n\t\t\t_, err = w.w.Write([]byte{'\\t'})\n\t\t\tif err != nil {\n\t\t\t\treturn\n\t\t\t}\n\t\t\tn++\n\t\t}\n", Replace: "\t\tif f.FeatAttributes != nil || f.Comments != \"\" {\n\t\t\t_, err = w.w.Write([]byte{'\\t'})\n\t\t\tif err != nil {\n\t\t\t\treturn\n\t\t\t}\n\t\t\tn++\n\t\t\tif f.FeatAttributes != nil {\n\t\t\t\t_n, err = fmt.Fprintf(w.w, \"%v\", f.FeatAttributes)\n\t\t\t\tn += _n\n\t\t\t\tif err != nil {\n\t\t\t\t\treturn n, err\n\t\t\t\t}\n\t\t\t}\n\t\t}\n"},
	)
	add("C06",
		variant{Name: "benign-truncate-comparison-turned-round", File: utils, Find: "\tif start <= end {\n\t\tif dst == src {\n", Replace: "\tif end >= start {\n\t\tif dst == src {\n"},
	)
	add("C10",
		variant{Name: "benign-kmer-index-up-to-the-mask", File: kmer, Find: "\tm := make(map[Kmer][]int)\n\n\tfor i := range ki.finger {\n\t\tif p, _ := ki.KmerPositions(Kmer(i)); len(p) > 0 {\n\t\t\tm[Kmer(i)] = p\n\t\t}\n\t}\n", Replace: "\tm := make(map[Kmer][]int)\n\n\tfor kmer := Kmer(0); kmer <= ki.kMask; kmer++ {\n\t\tif p, _ := ki.KmerPositions(kmer); len(p) > 0 {\n\t\t\tm[kmer] = p\n\t\t}\n\t}\n"},
	)
	add("C09",
		variant{Name: "benign-nw-first-cell-test-shifted", File: nwL, Find: "\t\t\tif last != up && p != len(table)-1 {\n", Replace: "\t\t\tif last != up && p+1 != len(table) {\n",
			More: []edit{{nwQ, "\t\t\tif last != up && p != len(table)-1 {\n", "\t\t\tif last != up && p+1 != len(table) {\n"}}},
	)
}
