// Symbolic linear forms over SSA values: v == sum(coef[atom]*atom) + k.
// Atoms are named canonically (parameters, zero-argument method calls on
// named receivers, field loads, len(x), indexed elements) so that two SSA
// values that read the same thing compare equal; everything else becomes an
// opaque atom named after the SSA register (unique within its function).
// Small static callees with one return and no branches are inlined.
package main

import (
	"fmt"
	"go/token"
	"go/types"
	"sort"
	"strings"

	"golang.org/x/tools/go/ssa"
)

type lin struct {
	coef map[string]int64
	k    int64
}

func newLin() lin { return lin{coef: map[string]int64{}} }

func linConst(k int64) lin { l := newLin(); l.k = k; return l }

func linAtom(a string) lin { l := newLin(); l.coef[a] = 1; return l }

func (a lin) add(b lin, sign int64) lin {
	out := newLin()
	out.k = a.k + sign*b.k
	for s, c := range a.coef {
		out.coef[s] += c
	}
	for s, c := range b.coef {
		out.coef[s] += sign * c
	}
	for s, c := range out.coef {
		if c == 0 {
			delete(out.coef, s)
		}
	}
	return out
}

func (a lin) scale(m int64) lin {
	out := newLin()
	out.k = a.k * m
	if m == 0 {
		return out
	}
	for s, c := range a.coef {
		out.coef[s] = c * m
	}
	return out
}

func (a lin) isConst() bool { return len(a.coef) == 0 }

func (a lin) equal(b lin) bool {
	d := a.add(b, -1)
	return d.k == 0 && len(d.coef) == 0
}

func (a lin) String() string {
	var names []string
	for s := range a.coef {
		names = append(names, s)
	}
	sort.Strings(names)
	var sb strings.Builder
	for _, s := range names {
		c := a.coef[s]
		switch {
		case c == 1:
			if sb.Len() > 0 {
				sb.WriteString(" + ")
			}
			sb.WriteString(s)
		case c == -1:
			if sb.Len() > 0 {
				sb.WriteString(" - ")
			} else {
				sb.WriteString("-")
			}
			sb.WriteString(s)
		case c < 0:
			if sb.Len() > 0 {
				fmt.Fprintf(&sb, " - %d*%s", -c, s)
			} else {
				fmt.Fprintf(&sb, "-%d*%s", -c, s)
			}
		default:
			if sb.Len() > 0 {
				sb.WriteString(" + ")
			}
			fmt.Fprintf(&sb, "%d*%s", c, s)
		}
	}
	switch {
	case sb.Len() == 0:
		return fmt.Sprint(a.k)
	case a.k > 0:
		fmt.Fprintf(&sb, " + %d", a.k)
	case a.k < 0:
		fmt.Fprintf(&sb, " - %d", -a.k)
	}
	return sb.String()
}

// subst replaces atom by the form repl.
func (a lin) subst(atom string, repl lin) lin {
	c, ok := a.coef[atom]
	if !ok {
		return a
	}
	out := newLin()
	out.k = a.k
	for s, x := range a.coef {
		if s != atom {
			out.coef[s] = x
		}
	}
	return out.add(repl.scale(c), 1)
}

// linEnv maps the parameters of an inlined callee to the caller's forms and
// names.
type linEnv struct {
	forms    map[*ssa.Parameter]lin
	names    map[*ssa.Parameter]string
	depth    int
	noInline bool
	// allocAsName names a spilled local (value receiver, captured parameter) after its variable
	allocAsName bool
	// alias lets a rule rename atoms (e.g. all `src.End()` calls to "E").
	alias func(v ssa.Value) (string, bool)
}

// symName gives a canonical name to a value read from memory or obtained
// from a parameter.
func symName(v ssa.Value, env *linEnv) string {
	if env != nil && env.alias != nil {
		if s, ok := env.alias(v); ok {
			return s
		}
	}
	switch x := v.(type) {
	case *ssa.Parameter:
		if env != nil {
			if s, ok := env.names[x]; ok {
				return s
			}
		}
		return x.Name()
	case *ssa.Const:
		return x.Name()
	case *ssa.Global:
		return x.Name()
	case *ssa.Alloc:
		if x.Comment != "" && x.Comment != "complit" {
			if env != nil && env.allocAsName {
				return x.Comment
			}
		}
	case *ssa.UnOp:
		if x.Op == token.MUL {
			switch a := x.X.(type) {
			case *ssa.FieldAddr:
				return symName(a.X, env) + "." + fieldName(a)
			case *ssa.IndexAddr:
				return symName(a.X, env) + "[" + linOf(a.Index, env).String() + "]"
			case *ssa.Global:
				return a.Name()
			case *ssa.Alloc:
				if a.Comment != "" {
					return a.Comment
				}
			}
			return "*" + symName(x.X, env)
		}
	case *ssa.FieldAddr:
		return "&" + symName(x.X, env) + "." + fieldName(x)
	case *ssa.IndexAddr:
		return "&" + symName(x.X, env) + "[" + linOf(x.Index, env).String() + "]"
	case *ssa.Field:
		return symName(x.X, env) + "." + fieldNameOfStruct(x)
	case *ssa.Index:
		return symName(x.X, env) + "[" + linOf(x.Index, env).String() + "]"
	case *ssa.MakeInterface:
		return symName(x.X, env)
	case *ssa.ChangeInterface:
		return symName(x.X, env)
	case *ssa.ChangeType:
		return symName(x.X, env)
	case *ssa.Convert:
		return symName(x.X, env)
	case *ssa.Call:
		if b, ok := x.Call.Value.(*ssa.Builtin); ok && (b.Name() == "len" || b.Name() == "cap") && len(x.Call.Args) == 1 {
			return b.Name() + "(" + symName(x.Call.Args[0], env) + ")"
		}
		if x.Call.IsInvoke() && len(x.Call.Args) == 0 {
			return symName(x.Call.Value, env) + "." + x.Call.Method.Name() + "()"
		}
		if f := x.Call.StaticCallee(); f != nil && f.Signature.Recv() != nil && len(x.Call.Args) == 1 {
			return symName(x.Call.Args[0], env) + "." + f.Name() + "()"
		}
	case *ssa.Phi:
		if x.Comment != "" {
			return "φ" + x.Comment + "/" + x.Name()
		}
	}
	return v.Name() + "@" + parentName(v)
}

func parentName(v ssa.Value) string {
	if f := v.Parent(); f != nil {
		return f.Name()
	}
	return ""
}

func fieldName(a *ssa.FieldAddr) string {
	return structFieldName(a.X.Type(), a.Field)
}

func structFieldVar(t types.Type, idx int) *types.Var {
	if p, ok := t.Underlying().(*types.Pointer); ok {
		t = p.Elem()
	}
	st, ok := t.Underlying().(*types.Struct)
	if !ok || idx >= st.NumFields() {
		return nil
	}
	return st.Field(idx)
}

func structFieldName(t types.Type, idx int) string {
	if f := structFieldVar(t, idx); f != nil {
		return f.Name()
	}
	return fmt.Sprintf("#%d", idx)
}

func isIntegral(t types.Type) bool {
	b, ok := t.Underlying().(*types.Basic)
	return ok && b.Info()&types.IsInteger != 0
}

func fieldNameOfStruct(a *ssa.Field) string {
	return structFieldName(a.X.Type(), a.Field)
}

// linOf expresses v as a linear form.
func linOf(v ssa.Value, env *linEnv) lin {
	if env != nil && env.alias != nil {
		if s, ok := env.alias(v); ok {
			return linAtom(s)
		}
	}
	switch x := v.(type) {
	case *ssa.Const:
		if k, ok := constIntVal(x); ok {
			return linConst(k)
		}
	case *ssa.Parameter:
		if env != nil {
			if l, ok := env.forms[x]; ok {
				return l
			}
		}
	case *ssa.Convert:
		if isIntegral(x.X.Type()) && isIntegral(x.Type()) {
			return linOf(x.X, env)
		}
	case *ssa.ChangeType:
		return linOf(x.X, env)
	case *ssa.UnOp:
		if x.Op == token.SUB {
			return linOf(x.X, env).scale(-1)
		}
	case *ssa.BinOp:
		switch x.Op {
		case token.ADD:
			return linOf(x.X, env).add(linOf(x.Y, env), 1)
		case token.SUB:
			return linOf(x.X, env).add(linOf(x.Y, env), -1)
		case token.MUL:
			a, b := linOf(x.X, env), linOf(x.Y, env)
			if a.isConst() {
				return b.scale(a.k)
			}
			if b.isConst() {
				return a.scale(b.k)
			}
			// product of two forms: a named product atom when both are single atoms
			return linAtom("(" + a.String() + ")*(" + b.String() + ")")
		}
	case *ssa.Call:
		if b, ok := x.Call.Value.(*ssa.Builtin); ok && b.Name() == "len" && len(x.Call.Args) == 1 {
			if sl, ok := x.Call.Args[0].(*ssa.Slice); ok && sl.Max == nil {
				if _, isStr := sl.X.Type().Underlying().(*types.Basic); !isStr {
					var hi lin
					if sl.High != nil {
						hi = linOf(sl.High, env)
					} else if _, isPtr := sl.X.Type().Underlying().(*types.Pointer); isPtr {
						break
					} else {
						hi = linAtom("len(" + symName(sl.X, env) + ")")
					}
					lo := linConst(0)
					if sl.Low != nil {
						lo = linOf(sl.Low, env)
					}
					return hi.add(lo, -1)
				}
			}
		}
		if f := x.Call.StaticCallee(); f != nil && inModule(f) && len(f.Blocks) == 1 && (env == nil || (env.depth < 3 && !env.noInline)) {
			if ret, ok := f.Blocks[0].Instrs[len(f.Blocks[0].Instrs)-1].(*ssa.Return); ok && len(ret.Results) == 1 && isIntegral(ret.Results[0].Type()) && len(f.Params) == len(x.Call.Args) {
				sub := &linEnv{forms: map[*ssa.Parameter]lin{}, names: map[*ssa.Parameter]string{}}
				if env != nil {
					sub.depth = env.depth + 1
					sub.alias = env.alias
					sub.noInline = env.noInline
					sub.allocAsName = env.allocAsName
				} else {
					sub.depth = 1
				}
				for i, p := range f.Params {
					if isIntegral(p.Type()) {
						sub.forms[p] = linOf(x.Call.Args[i], env)
					}
					sub.names[p] = symName(x.Call.Args[i], env)
				}
				return linOf(ret.Results[0], sub)
			}
		}
	}
	return linAtom(symName(v, env))
}

// strictForm normalises `x OP y` holding (edge 0) or failing (edge 1) to a
// form L with L < 0 over the integers; ok is false for == and !=.
func strictForm(bo *ssa.BinOp, edge int, env *linEnv) (lin, bool) {
	op := bo.Op
	if edge == 1 {
		op = negateOp(op)
	}
	d := linOf(bo.X, env).add(linOf(bo.Y, env), -1) // x - y
	switch op {
	case token.LSS: // x - y < 0
		return d, true
	case token.LEQ: // x - y <= 0  <=>  x - y - 1 < 0
		d.k--
		return d, true
	case token.GTR: // y - x < 0
		return d.scale(-1), true
	case token.GEQ: // y - x - 1 < 0
		d = d.scale(-1)
		d.k--
		return d, true
	}
	return lin{}, false
}
