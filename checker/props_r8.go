package main

import "golang.org/x/tools/go/ssa"

// Registrations and explanations of the rules added after the eighth round of
// seeded changes (DESIGN.md §10.7).
func init() {
	aligners := func(c *Ctx, names ...string) []*ssa.Function {
		var fns []*ssa.Function
		for _, a := range names {
			fns = append(fns, c.fn("align", a+".alignLetters"), c.fn("align", a+".alignQLetters"))
		}
		return fns
	}
	all := []string{"NW", "NWAffine", "SW", "SWAffine", "Fitted", "FittedAffine"}
	addRule("C02", "commentplaceholder", 1, ruleCommentPlaceholder)
	addRule("C06", "truncatestrict", 1, ruleTruncateStrict)
	addRule("C07", "truncatestrict", 1, ruleTruncateStrict)
	for _, id := range []string{"C08", "C09"} {
		addRule(id, "borderletter", 2, func(c *Ctx, r string) { ruleBorderLetter(c, r, aligners(c, "NW", "NWAffine")) })
	}
	addRule("C08", "argcheck", 4, func(c *Ctx, r string) { ruleArgCheck(c, r, all) })
	addRule("C08", "stride", 13, func(c *Ctx, r string) { ruleStride(c, r, aligners(c, all...)) })
	addRule("C09", "firstcellguard", 0, func(c *Ctx, r string) { ruleFirstCellGuard(c, r, aligners(c, all...)) })
	addRule("C15", "samestrand", 1, ruleSameStrand)

	extra := map[string]string{
		"C02": "commentplaceholder: every feasible path to the write of the comment column has written the attribute column or its tab placeholder.",
		"C06": "truncatestrict: Truncate's wrapped branch is entered under start > end.",
		"C07": "truncatestrict: as C06 (Subseq and Truncate of a Multi go through it).",
		"C08": "argcheck, stride (as C09). borderletter: a first-row border cell k is charged with letter k-1.",
		"C09": "borderletter (as C08). firstcellguard: a guard of a block emission inside the traceback loop that mentions a traceback counter mentions both.",
		"C10": "allkmers also requires an enumeration bounded by kMask to include kMask.",
		"C14": "tubecap follows the tubeIndex helper.",
		"C15": "samestrand: NewMerger receives the value that Filter scanned.",
		"C18": "signround also requires a branch that selects +0.5 or -0.5 to test the value being rounded.",
		"C19": "chunkpositive does not accept math.Ceil of a converted integer quotient.",
	}
	for id, s := range extra {
		if p := props[id]; p != nil {
			p.Explanation += " " + s
		}
	}
}
