package main

// Fault and benign variants for the rules added in round 15.
func init() {
	const (
		nwaL = "align/nw_affine_letters.go"
		nwaQ = "align/nw_affine_qletters.go"
		faL  = "align/fitted_affine_letters.go"
		faQ  = "align/fitted_affine_qletters.go"
		gff  = "io/featio/gff/gff.go"
		kmer = "index/kmerindex/kmerindex.go"
		cmap = "concurrent/map.go"
	)
	add := func(prop string, vs ...variant) { selftests[prop] = append(selftests[prop], vs...) }

	const layerScan = "\tbest := t[0]\n\tfor i, s := range t[1:] {\n\t\tif s > best {\n\t\t\tbest, layer = s, i+1\n\t\t}\n\t}"
	const rowScan = "\t\tv := table[(y*c)+c-1][diag]\n\t\tif v >= max {\n\t\t\ti = y\n\t\t\tmax = v\n\t\t}"
	add("C08",
		variant{Name: "start-layer-compared-with-the-match-layer", File: nwaL, Find: layerScan,
			Replace: "\tfor l, s := range t {\n\t\tif s > t[diag] {\n\t\t\tlayer = l\n\t\t}\n\t}",
			Rule:    "argmaxrunning", Key: "align.(NWAffine).alignLetters/scan-compares-with-running-best"},
		variant{Name: "start-row-compared-with-a-fixed-cell", File: faL, Find: rowScan,
			Replace: "\t\tv := table[(y*c)+c-1][diag]\n\t\tif v >= table[c+c-1][diag] {\n\t\t\ti = y\n\t\t\tmax = v\n\t\t\t_ = max\n\t\t}",
			Rule:    "argmaxrunning", Key: "align.(FittedAffine).alignLetters/scan-compares-with-running-best"},
		variant{Name: "start-row-keeps-the-minimum", File: faL, Find: rowScan,
			Replace: "\t\tv := table[(y*c)+c-1][diag]\n\t\tif v <= max {\n\t\t\ti = y\n\t\t\tmax = v\n\t\t}",
			Rule:    "argmaxrunning", Key: "align.(FittedAffine).alignLetters/scan-compares-with-running-best"},
		variant{Name: "benign-start-layer-compared-with-the-layer-chosen-so-far", File: nwaL, Find: layerScan,
			Replace: "\tfor l := range t {\n\t\tif t[l] > t[layer] {\n\t\t\tlayer = l\n\t\t}\n\t}",
			More:    []edit{{nwaQ, layerScan, "\tfor l := range t {\n\t\tif t[l] > t[layer] {\n\t\t\tlayer = l\n\t\t}\n\t}"}}},
		variant{Name: "benign-start-row-test-turned-round", File: faL, Find: rowScan,
			Replace: "\t\tif v := table[(y*c)+c-1][diag]; max <= v {\n\t\t\ti, max = y, v\n\t\t}",
			More:    []edit{{faQ, rowScan, "\t\tif v := table[(y*c)+c-1][diag]; max <= v {\n\t\t\ti, max = y, v\n\t\t}"}}},
	)
	add("C03",
		variant{Name: "converter-deferred-after-the-metadata-lines", File: gff,
			Find:    "\tdefer handlePanic(&f, &err)\n\n\tvar line []byte\n",
			Replace: "\tvar line []byte\n",
			More:    []edit{{gff, "\tfields := bytes.SplitN(line, []byte{'\\t'}, lastField)\n", "\tdefer handlePanic(&f, &err)\n\tfields := bytes.SplitN(line, []byte{'\\t'}, lastField)\n"}},
			Rule:    "recovercover", Key: "gff.(*Reader).Read/panics-under-converter"},
		variant{Name: "benign-converter-deferred-after-a-declaration", File: gff,
			Find:    "\tdefer handlePanic(&f, &err)\n\n\tvar line []byte\n",
			Replace: "\tvar line []byte\n\tdefer handlePanic(&f, &err)\n"},
	)
	add("C14",
		variant{Name: "preload-reads-the-indexed-sequence", File: kmer,
			Find:    "\t\tcurrentBase = ki.lookUp[s.Seq[basePosition]]\n\t\tif currentBase >= 0 {\n\t\t\tkmer = (kmer << 2) | Kmer(currentBase)\n\t\t} else {\n\t\t\tkmer = 0\n\t\t\thigh = basePosition + 1",
			Replace: "\t\tcurrentBase = ki.lookUp[ki.seq.Seq[basePosition]]\n\t\tif currentBase >= 0 {\n\t\t\tkmer = (kmer << 2) | Kmer(currentBase)\n\t\t} else {\n\t\t\tkmer = 0\n\t\t\thigh = basePosition + 1",
			Rule:    "scansargument", Key: "kmerindex.(*Index).ForEachKmerOf/letters-read-from-the-sequence-given"},
		variant{Name: "benign-letters-read-through-a-local", File: kmer,
			Find:    "\t\tcurrentBase = ki.lookUp[s.Seq[basePosition]]\n\t\tif currentBase >= 0 {\n\t\t\tkmer = (kmer << 2) | Kmer(currentBase)\n\t\t} else {\n\t\t\tkmer = 0\n\t\t\thigh = basePosition + 1",
			Replace: "\t\tscanned := s\n\t\tcurrentBase = ki.lookUp[scanned.Seq[basePosition]]\n\t\tif currentBase >= 0 {\n\t\t\tkmer = (kmer << 2) | Kmer(currentBase)\n\t\t} else {\n\t\t\tkmer = 0\n\t\t\thigh = basePosition + 1"},
	)
	const chunkLine = "\tchunkSize := util.Min(int(math.Ceil(float64(set.Len())/float64(threads))), maxChunkSize)\n"
	add("C19",
		variant{Name: "chunk-count-by-unguarded-division", File: cmap, Find: chunkLine,
			Replace: chunkLine + "\tchunks := (set.Len() + chunkSize - 1) / chunkSize\n",
			More: []edit{
				{cmap, "for s := 0; s*chunkSize < set.Len(); s++ {", "for s := 0; s < chunks; s++ {"},
				{cmap, "for r := 0; r*chunkSize < set.Len(); r++ {", "for r := 0; r < chunks; r++ {"}},
			Rule: "chunkpositive", Key: "concurrent.Map/chunk-size-rounds-up"},
		variant{Name: "benign-chunk-count-by-division-behind-an-emptiness-test", File: cmap, Find: chunkLine,
			Replace: "\tif set.Len() == 0 {\n\t\treturn nil, nil\n\t}\n" + chunkLine + "\tchunks := (set.Len() + chunkSize - 1) / chunkSize\n",
			More: []edit{
				{cmap, "for s := 0; s*chunkSize < set.Len(); s++ {", "for s := 0; s < chunks; s++ {"},
				{cmap, "for r := 0; r*chunkSize < set.Len(); r++ {", "for r := 0; r < chunks; r++ {"}}},
	)

	// round 17
	const (
		fastq = "io/seqio/fastq/fastq.go"
		utils = "seq/sequtils/utils.go"
		alpha = "alphabet/alphabet.go"
	)
	const eofBranch = "\t\t\tif t != nil && state == quality && err == io.EOF {\n\t\t\t\terr = nil\n"
	add("C04",
		variant{Name: "own-error-at-end-of-input-without-a-look-at-the-pending-line", File: fastq, Find: eofBranch,
			Replace: "\t\t\tif t != nil && state == quality && err == io.EOF {\n\t\t\t\tif len(seqBuff) != 0 {\n\t\t\t\t\treturn nil, io.ErrUnexpectedEOF\n\t\t\t\t}\n\t\t\t\terr = nil\n",
			Rule:    "eofpending", Key: "fastq.(*Reader).Read/ReadLine/pending-line-consulted-at-end-of-input"},
		variant{Name: "benign-end-of-input-test-reordered", File: fastq, Find: eofBranch,
			Replace: "\t\t\tif err == io.EOF && state == quality && t != nil {\n\t\t\t\terr = nil\n"},
	)
	const rangeTest = "\tif start < offset || end > src.End() {\n"
	for _, id := range []string{"C06", "C07"} {
		add(id,
			variant{Name: "truncate-refuses-the-end-of-the-sequence", File: utils, Find: rangeTest,
				Replace: "\tif start < offset || end >= src.End() {\n",
				Rule:    "rangeinclusive", Key: "sequtils.Truncate/range-test-strict"},
			variant{Name: "benign-truncate-range-test-turned-round", File: utils, Find: rangeTest,
				Replace: "\tif offset > start || src.End() < end {\n"},
		)
	}
	const fillAndMark = "\tcopy(p.complements[:], p.pair)\n\tfor i, ok := range p.ok {\n\t\tif !ok {\n\t\t\tp.complements[i] |= unicode.MaxASCII + 1\n\t\t}\n\t}\n"
	add("C17",
		variant{Name: "complement-table-copied-over-its-marks", File: alpha, Find: fillAndMark,
			Replace: "\tfor i, ok := range p.ok {\n\t\tif !ok {\n\t\t\tp.complements[i] |= unicode.MaxASCII + 1\n\t\t}\n\t}\n\tcopy(p.complements[:], p.pair)\n",
			Rule:    "marklast", Key: "alphabet.NewPairing/table-filled-before-it-is-marked"},
		variant{Name: "benign-complement-table-filled-and-marked-in-one-loop", File: alpha, Find: fillAndMark,
			Replace: "\tfor i, l := range p.pair {\n\t\tif !p.ok[i] {\n\t\t\tl |= unicode.MaxASCII + 1\n\t\t}\n\t\tp.complements[i] = l\n\t}\n"},
	)
	const clampLine = "\t\t\t\tendChunk := util.Min(chunkSize*(s+1), set.Len())\n"
	add("C19",
		variant{Name: "last-chunk-not-clamped", File: cmap, Find: clampLine,
			Replace: "\t\t\t\tendChunk := chunkSize * (s + 1)\n",
			Rule:    "chunkclamp", Key: "concurrent.Map/chunk-end-clamped-to-the-length"},
		variant{Name: "benign-last-chunk-clamped-by-a-test", File: cmap, Find: clampLine,
			Replace: "\t\t\t\tendChunk := chunkSize * (s + 1)\n\t\t\t\tif endChunk > set.Len() {\n\t\t\t\t\tendChunk = set.Len()\n\t\t\t\t}\n"},
	)

	// round 19
	const (
		morassF = "morass/morass.go"
		palsF   = "align/pals/pals.go"
		letters = "alphabet/letters.go"
	)
	const memEOF = "\t\t\tm.chunk = nil\n\t\t\tfallthrough\n\t\tdefault:\n\t\t\tif m.AutoClear {\n\t\t\t\tm.Clear()\n\t\t\t}\n\t\t\tif m.AutoClean {\n\t\t\t\tos.RemoveAll(m.dir)\n"
	add("C13",
		variant{Name: "in-memory-drain-removes-only-an-empty-directory", File: morassF, Find: memEOF,
			Replace: "\t\t\tm.chunk = nil\n\t\t\tfallthrough\n\t\tdefault:\n\t\t\tif m.AutoClear {\n\t\t\t\tm.Clear()\n\t\t\t}\n\t\t\tif m.AutoClean {\n\t\t\t\tos.Remove(m.dir)\n",
			Rule:    "dirremoval", Key: "morass.(*Morass).Pull/temporary-directory-removed-with-contents"},
	)
	const ephredTail = "\tQ := -10 * math.Log10(p)\n\tQ += 0.5\n\tif Q > 254 {\n\t\tQ = 254\n\t}\n\treturn Qphred(Q)\n"
	add("C18",
		variant{Name: "phred-saturated-before-the-half-is-added", File: letters, Find: ephredTail,
			Replace: "\tQ := -10 * math.Log10(p)\n\tif Q > math.MaxUint8 {\n\t\treturn 254\n\t}\n\treturn Qphred(Q + 0.5)\n",
			Rule:    "clampfirst", Key: "alphabet.Ephred/saturate-before-narrowing"},
		variant{Name: "benign-phred-saturated-by-min", File: letters, Find: ephredTail,
			Replace: "\treturn Qphred(math.Min(-10*math.Log10(p)+0.5, 254))\n"},
		variant{Name: "solexa-offset-removed-after-the-conversion", File: letters, Find: "\t\treturn (Qsolexa(q) - 64).Qphred()\n",
			Replace: "\t\treturn Qsolexa(q).Qphred() - 64\n",
			Rule:    "tables/quality", Key: "alphabet.Encoding/Solexa/Qphred-decode-converts-after-the-offset"},
		variant{Name: "benign-solexa-offset-removed-in-a-temporary", File: letters, Find: "\t\treturn (Qsolexa(q) - 64).Qphred()\n",
			Replace: "\t\tqs := Qsolexa(q) - 64\n\t\treturn qs.Qphred()\n"},
	)

	// round 21
	const lowerLoop = "\tfor i, l := range a.letters[:len(letters)] {\n\t\ta.valid[l] = true\n\t\ta.index[l] = i\n\t}\n"
	const upperLoop = "\tfor i, l := range a.letters[len(letters):] {\n\t\ta.valid[l] = true\n\t\ta.index[l] = a.index[a.letters[i]]\n\t}\n"
	add("C17",
		variant{Name: "lower-case-half-never-walked", File: alpha, Find: lowerLoop, Replace: "",
			Rule: "casefold", Key: "alphabet.newAlphabet/both-cases-marked"},
		variant{Name: "benign-both-halves-in-one-loop", File: alpha, Find: lowerLoop + upperLoop,
			Replace: "\tfor i, l := range a.letters {\n\t\ta.valid[l] = true\n\t\ta.index[l] = i % len(letters)\n\t}\n"},
		variant{Name: "benign-halves-walked-as-separate-strings", File: alpha, Find: lowerLoop + upperLoop,
			Replace: "\tfor i, l := range strings.ToLower(letters) {\n\t\ta.valid[l] = true\n\t\ta.index[l] = i\n\t}\n\tfor i, l := range strings.ToUpper(letters) {\n\t\ta.valid[l] = true\n\t\ta.index[l] = i\n\t}\n"},
	)
	const trimLoop = "\tfor i := q.Start(); i < q.End(); i++ {\n\t\tsum += limit - q.EAt(i)\n\t\tif sum < 0 {\n\t\t\tsum, begin = 0, i+1\n\t\t}\n\t\tif sum >= max {\n\t\t\tmax, start, end = sum, begin, i+1\n\t\t}\n\t}\n"
	add("C06",
		variant{Name: "trim-window-start-kept-as-a-subscript", File: utils, Find: trimLoop,
			Replace: "\tfor i, off, n := 0, q.Start(), q.Len(); i < n; i++ {\n\t\tsum += limit - q.EAt(off+i)\n\t\tif sum < 0 {\n\t\t\tsum, begin = 0, i+1\n\t\t}\n\t\tif sum >= max {\n\t\t\tmax, start, end = sum, begin, off+i+1\n\t\t}\n\t}\n",
			Rule:    "trimcoords", Key: "sequtils.Trim/return#1/start-is-a-position"},
		variant{Name: "trim-probes-with-a-subscript", File: utils, Find: trimLoop,
			Replace: "\tfor i, off, n := 0, q.Start(), q.Len(); i < n; i++ {\n\t\tsum += limit - q.EAt(i)\n\t\tif sum < 0 {\n\t\t\tsum, begin = 0, off+i+1\n\t\t}\n\t\tif sum >= max {\n\t\t\tmax, start, end = sum, begin, off+i+1\n\t\t}\n\t}\n",
			Rule:    "trimcoords", Key: "sequtils.Trim/EAt#1/probe-is-a-position"},
		variant{Name: "benign-trim-loop-counts-from-zero", File: utils, Find: trimLoop,
			Replace: "\tfor i, off, n := 0, q.Start(), q.Len(); i < n; i++ {\n\t\tsum += limit - q.EAt(off+i)\n\t\tif sum < 0 {\n\t\t\tsum, begin = 0, off+i+1\n\t\t}\n\t\tif sum >= max {\n\t\t\tmax, start, end = sum, begin, off+i+1\n\t\t}\n\t}\n"},
	)
	// round 23
	const qualTail = "\tline = bytes.Join(bytes.Fields(line), nil)\n\tif len(line) != len(seqBuff) {\n\t\treturn nil, errors.New(\"fastq: sequence/quality length mismatch\")\n\t}\n"
	add("C03",
		variant{Name: "quality-line-counted-before-its-blanks-are-removed", File: fastq, Find: qualTail,
			Replace: "\tif len(line) != len(seqBuff) {\n\t\treturn nil, errors.New(\"fastq: sequence/quality length mismatch\")\n\t}\n\tline = bytes.Join(bytes.Fields(line), nil)\n",
			Rule:    "qualcount", Key: "fastq.(*Reader).Read/decoded-line-is-the-counted-line"},
		variant{Name: "benign-quality-line-counted-through-temporaries", File: fastq, Find: qualTail,
			Replace: "\tline = bytes.Join(bytes.Fields(line), nil)\n\tif nq, nl := len(line), len(seqBuff); nl != nq {\n\t\treturn nil, errors.New(\"fastq: sequence/quality length mismatch\")\n\t}\n"},
	)
	// round 25
	const stitchClip = "\t\tfs, fe := max(f.s-offset, 0), min(f.e-offset, pLen)\n\t\tif fs >= fe {\n\t\t\tcontinue\n\t\t}\n\t\tt = t.Append(sl.Slice(fs, fe))\n"
	add("C06",
		variant{Name: "stitch-slices-a-span-that-clips-to-nothing", File: utils, Find: stitchClip,
			Replace: "\t\tt = t.Append(sl.Slice(max(f.s-offset, 0), min(f.e-offset, pLen)))\n",
			Rule:    "clipordered", Key: "sequtils.Stitch/clipped-span-sliced-only-when-not-empty"},
		variant{Name: "benign-stitch-appends-under-the-positive-test", File: utils, Find: stitchClip,
			Replace: "\t\tif fs, fe := max(f.s-offset, 0), min(f.e-offset, pLen); fe > fs {\n\t\t\tt = t.Append(sl.Slice(fs, fe))\n\t\t}\n"},
	)
}
