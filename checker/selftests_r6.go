package main

// Benign rewrites (and a few faults) for the rules added after the sixth
// round of seeded changes; the fault direction is otherwise exercised by
// replaying the R6-* changes.
func init() {
	const (
		utils   = "seq/sequtils/utils.go"
		gff     = "io/featio/gff/gff.go"
		fastq   = "io/seqio/fastq/fastq.go"
		multi   = "seq/multi/multi.go"
		qseq    = "seq/linear/qseq.go"
		cmap    = "concurrent/map.go"
		promise = "concurrent/promise.go"
		feature = "feat/feature.go"
		alph    = "alphabet/alphabet.go"
		lett    = "alphabet/letters.go"
		filt    = "align/pals/filter/filter.go"
		trap    = "align/pals/filter/trapezoid.go"
		aln     = "seq/alignment/alignment.go"
	)
	add := func(prop string, vs ...variant) { selftests[prop] = append(selftests[prop], vs...) }

	add("C06",
		variant{Name: "benign-join-empty-src-first", File: utils, Find: "\to := dst\n\tif where == seq.End {\n\t\tsrc, dst = dst, src\n\t}\n", Replace: "\tif src.Slice().Len() == 0 {\n\t\treturn nil\n\t}\n\to := dst\n\tif where == seq.End {\n\t\tsrc, dst = dst, src\n\t}\n"},
		variant{Name: "join-empty-test-after-swap", File: utils, Find: "\tsrcLen := srcSl.Len()\n\tif where == seq.Start {\n", Replace: "\tsrcLen := srcSl.Len()\n\tif srcLen == 0 {\n\t\treturn nil\n\t}\n\tif where == seq.Start {\n", Rule: "joinearly", Key: "sequtils.Join/early-success-returns"},
		variant{Name: "benign-truncate-linear-set-first", File: utils, Find: "\tif start <= end {\n\t\tif dst == src {\n", Replace: "\tif cs, ok := dst.(seq.ConformationSetter); ok && start <= end {\n\t\tcs.SetConformation(feat.Linear)\n\t}\n\tif start <= end {\n\t\tif dst == src {\n"},
	)
	add("C02",
		variant{Name: "benign-gff-columns-nested", File: gff, Find: "\tif len(fields) <= attributeField {\n\t\treturn gff, nil\n\t}\n\tgff.FeatAttributes = mustAtoa(fields, attributeField, r.line)\n\tif len(fields) <= commentField {\n\t\treturn gff, nil\n\t}\n\tgff.Comments = string(fields[commentField])\n", Replace: "\tif len(fields) > attributeField {\n\t\tgff.FeatAttributes = mustAtoa(fields, attributeField, r.line)\n\t\tif len(fields) > commentField {\n\t\t\tgff.Comments = string(fields[commentField])\n\t\t}\n\t}\n"},
		variant{Name: "gff-comment-only-with-attributes", File: gff, Find: "\tgff.FeatAttributes = mustAtoa(fields, attributeField, r.line)\n\tif len(fields) <= commentField {\n", Replace: "\tgff.FeatAttributes = mustAtoa(fields, attributeField, r.line)\n\tif gff.FeatAttributes == nil {\n\t\treturn gff, nil\n\t}\n\tif len(fields) <= commentField {\n", Rule: "columnsparsed", Key: "gff.(*Reader).Read/comment-column-on-every-path"},
		variant{Name: "benign-gff-count-before-check", File: gff, Find: "\t\t\t_n, err = fmt.Fprintf(w.w, \"\\t%s\", f.Comments)\n\t\t\tn += _n\n\t\t}\n\t\treturn n, err\n", Replace: "\t\t\t_n, err = fmt.Fprintf(w.w, \"\\t%s\", f.Comments)\n\t\t\tif n += _n; err != nil {\n\t\t\t\treturn n, err\n\t\t\t}\n\t\t}\n\t\treturn n, nil\n"},
	)
	add("C01",
		variant{Name: "benign-fastq-description-in-a-local", File: fastq, Find: "\t\t_err := s.SetDescription(string(line[fieldMark+1:]))\n", Replace: "\t\tdesc := line[fieldMark+1:]\n\t\t_err := s.SetDescription(string(desc))\n"},
		variant{Name: "fastq-header-count-after-check", File: fastq, Find: "\t_n, err = io.WriteString(w.w, s.Name())\n\tif n += _n; err != nil {\n\t\treturn\n\t}\n", Replace: "\t_n, err = io.WriteString(w.w, s.Name())\n\tif err != nil {\n\t\treturn\n\t}\n\tn += _n\n", Rule: "bytecount/onerror", Key: "fastq.(*Writer).writeHeader/emit io.WriteString#1"},
	)
	add("C04",
		variant{Name: "benign-append-letters-in-place", File: qseq, Find: "\tl := s.Len()\n\ts.Seq = append(s.Seq, make([]alphabet.QLetter, len(a))...)[:l]\n\tfor _, v := range a {\n\t\ts.Seq = append(s.Seq, alphabet.QLetter{L: v, Q: seq.DefaultQphred})\n\t}\n", Replace: "\tl := len(s.Seq)\n\ts.Seq = append(s.Seq, make([]alphabet.QLetter, len(a))...)\n\tfor i, v := range a {\n\t\ts.Seq[l+i] = alphabet.QLetter{L: v, Q: seq.DefaultQphred}\n\t}\n"},
	)
	add("C07",
		variant{Name: "benign-column-range-two-tests", File: multi, Find: "func (m *Multi) Column(pos int, fill bool) []alphabet.Letter {\n\tif pos < m.Start() || pos >= m.End() {\n\t\tpanic(\"multi: index out of range\")\n\t}\n", Replace: "func (m *Multi) Column(pos int, fill bool) []alphabet.Letter {\n\tif m.Start() > pos {\n\t\tpanic(\"multi: index out of range\")\n\t}\n\tif !(pos < m.End()) {\n\t\tpanic(\"multi: index out of range\")\n\t}\n"},
		variant{Name: "column-range-lower-bound-only", File: multi, Find: "func (m *Multi) Column(pos int, fill bool) []alphabet.Letter {\n\tif pos < m.Start() || pos >= m.End() {\n", Replace: "func (m *Multi) Column(pos int, fill bool) []alphabet.Letter {\n\tif pos < m.Start() {\n", Rule: "rangepanic", Key: "multi.(*Multi).Column/returns-only-inside-[Start,End)"},
		variant{Name: "benign-row-column-helper", File: aln, Find: "// At returns the letter at position i.\nfunc (r Row) At(i int) alphabet.QLetter {\n\treturn alphabet.QLetter{\n\t\tL: r.Align.Seq[i-r.Align.Offset][r.Row],\n", Replace: "func (r Row) column(i int) int { return i - r.Align.Offset }\n\n// At returns the letter at position i.\nfunc (r Row) At(i int) alphabet.QLetter {\n\treturn alphabet.QLetter{\n\t\tL: r.Align.Seq[r.column(i)][r.Row],\n"},
	)
	add("C05",
		variant{Name: "benign-qseq-reverse-half-loop", File: qseq, Find: "\tl := s.Seq\n\tfor i, j := 0, len(l)-1; i < j; i, j = i+1, j-1 {\n\t\tl[i], l[j] = l[j], l[i]\n\t}\n\ts.Strand = seq.None\n", Replace: "\tl := s.Seq\n\tfor i := 0; i < len(l)/2; i++ {\n\t\tj := len(l) - 1 - i\n\t\tl[i], l[j] = l[j], l[i]\n\t}\n\ts.Strand = seq.None\n"},
		variant{Name: "qalignment-delete-keeps-one-more", File: "seq/alignment/qalignment.go", Find: "\t\tcs[j] = c[:i+copy(c[i:], c[i+1:])]\n\t}\n\tsa := s.SubAnnotations\n\ts.SubAnnotations = sa[:i+copy(sa[i:], sa[i+1:])]\n}\n\n// Row returns the sequence represented at row i of the alignment. It panics is i is out of range.\nfunc (s *QSeq) Row", Replace: "\t\tcs[j] = c[:i+copy(c[i:], c[i+1:])]\n\t}\n\tsa := s.SubAnnotations\n\ts.SubAnnotations = sa[:i+1+copy(sa[i+1:], sa[i+2:])]\n}\n\n// Row returns the sequence represented at row i of the alignment. It panics is i is out of range.\nfunc (s *QSeq) Row", Rule: "siblingarith", Key: "seq/alignment.Seq/QSeq.Delete"},
	)
	add("C19",
		variant{Name: "benign-chunk-size-integer-ceiling", File: cmap, Find: "\tchunkSize := util.Min(int(math.Ceil(float64(set.Len())/float64(threads))), maxChunkSize)\n", Replace: "\tchunkSize := util.Min((set.Len()+threads-1)/threads, maxChunkSize)\n",
			More: []edit{{cmap, "\t\"fmt\"\n\t\"math\"\n", "\t\"fmt\"\n"}}},
		variant{Name: "benign-chunk-size-clamped", File: cmap, Find: "\tchunkSize := util.Min(int(math.Ceil(float64(set.Len())/float64(threads))), maxChunkSize)\n", Replace: "\tchunkSize := set.Len() / threads\n\tif chunkSize < 1 {\n\t\tchunkSize = 1\n\t}\n\tchunkSize = util.Min(chunkSize, maxChunkSize)\n",
			More: []edit{{cmap, "\t\"fmt\"\n\t\"math\"\n", "\t\"fmt\"\n"}}},
		variant{Name: "benign-wait-loop-with-break", File: promise, Find: "\tr, set := p.messageState()\n\tfor !set {\n\t\tp.set.Wait()\n\t\tr, set = p.messageState()\n\t}\n", Replace: "\tvar (\n\t\tr   Result\n\t\tset bool\n\t)\n\tfor {\n\t\tif r, set = p.messageState(); set {\n\t\t\tbreak\n\t\t}\n\t\tp.set.Wait()\n\t}\n"},
	)
	add("C20",
		variant{Name: "benign-position-within-found-flag", File: feature, Find: "\t\tif f == ref {\n\t\t\treturn position, f != nil\n\t\t}\n\t\tposition += f.Start()\n", Replace: "\t\tif f != ref {\n\t\t\tposition += f.Start()\n\t\t} else {\n\t\t\treturn position, f != nil\n\t\t}\n"},
	)
	add("C17",
		variant{Name: "benign-pairing-table-filled-in-first-loop", File: alph, Find: "\tcopy(p.complements[:], p.pair)\n\tfor i, ok := range p.ok {\n\t\tif !ok {\n\t\t\tp.complements[i] |= unicode.MaxASCII + 1\n\t\t}\n\t}\n\treturn p, nil\n", Replace: "\tfor i, ok := range p.ok {\n\t\tp.complements[i] = p.pair[i]\n\t\tif !ok {\n\t\t\tp.complements[i] |= unicode.MaxASCII + 1\n\t\t}\n\t}\n\treturn p, nil\n"},
	)
	add("C18",
		variant{Name: "benign-solexa-table-descending", File: lett, Find: "\tfor q := range t[1:255] {\n\t\tqs := q - 127\n", Replace: "\tfor q := 253; q >= 0; q-- {\n\t\tqs := q - 127\n"},
	)
	add("C14",
		variant{Name: "benign-add-hit-error-in-a-local", File: filt, Find: "\treturn f.morass.Push(fh)\n}", Replace: "\tif err := f.morass.Push(fh); err != nil {\n\t\treturn err\n\t}\n\treturn nil\n}"},
	)
	add("C15",
		variant{Name: "benign-clip-mid-by-shift", File: trap, Find: "\tmidPosition := (tr.Bottom + tr.Top) / 2\n", Replace: "\tmidPosition := (tr.Top + tr.Bottom) / 2\n"},
	)
}
