// Rule G: per-iteration work is really per iteration.
//
//	loopdep:  an argument that must differ per row depends on the loop's
//	          iteration variables.
//	mustpass: every path to the append of the reversed scratch segment
//	          passes, in the same iteration, through SetSlice and
//	          RevComp|Reverse of that scratch (must-dataflow over go/cfg).
package main

import (
	"fmt"
	"go/ast"
	"go/types"

	"golang.org/x/tools/go/cfg"
	"golang.org/x/tools/go/packages"
)

// dependsOn: does e mention one of the objects, directly or through locals
// declared inside scope whose definitions do?
func dependsOn(p *packages.Package, e ast.Node, objs map[types.Object]bool, scope ast.Node, depth int) bool {
	found := false
	ast.Inspect(e, func(n ast.Node) bool {
		id, ok := n.(*ast.Ident)
		if !ok || found {
			return !found
		}
		o := p.TypesInfo.ObjectOf(id)
		if o == nil {
			return true
		}
		if objs[o] {
			found = true
			return false
		}
		if v, ok := o.(*types.Var); ok && depth < 4 && scope.Pos() <= v.Pos() && v.Pos() < scope.End() {
			// local declared inside the loop body: look at its definitions
			ast.Inspect(scope, func(m ast.Node) bool {
				if as, ok := m.(*ast.AssignStmt); ok {
					for i, l := range as.Lhs {
						if lid, ok := l.(*ast.Ident); ok && p.TypesInfo.ObjectOf(lid) == v {
							rhs := as.Rhs[0]
							if len(as.Rhs) == len(as.Lhs) {
								rhs = as.Rhs[i]
							}
							if dependsOn(p, rhs, objs, scope, depth+1) {
								found = true
							}
						}
					}
				}
				return !found
			})
		}
		return !found
	})
	return found
}

// ruleLoopDep: in the named method, every call of `callee` inside a loop
// takes an argument that depends on that loop's iteration variables.
func ruleLoopDep(c *Ctx, rule, short, name, callee string) {
	fd, p := c.decl(short, name)
	fn := p.Types.Name() + "." + name
	// the whole loop may have been moved into a helper called once (m.mirror(...)): analyse the helper
	hasLoopCall := func(body ast.Node) bool {
		found := false
		ast.Inspect(body, func(x ast.Node) bool {
			switch s := x.(type) {
			case *ast.RangeStmt:
				found = found || callsMethod(s.Body, callee)
			case *ast.ForStmt:
				found = found || callsMethod(s.Body, callee)
			}
			return true
		})
		return found
	}
	for hops := 0; hops < 3 && !hasLoopCall(fd.Body); hops++ {
		var next *ast.FuncDecl
		ast.Inspect(fd.Body, func(x ast.Node) bool {
			switch x.(type) {
			case *ast.RangeStmt, *ast.ForStmt:
				return false // a helper called per row is handled below
			}
			if call, ok := x.(*ast.CallExpr); ok && next == nil {
				if h := helperDecl(p, call); h != nil && h != fd && callsMethod(h.Body, callee) {
					next = h
				}
			}
			return true
		})
		if next == nil {
			break
		}
		fd = next
	}
	n := 0
	var helpers []*ast.FuncDecl
	var visit func(node ast.Node, iter map[types.Object]bool, body ast.Node)
	visit = func(node ast.Node, iter map[types.Object]bool, body ast.Node) {
		ast.Inspect(node, func(x ast.Node) bool {
			switch s := x.(type) {
			case *ast.RangeStmt:
				if s == node {
					return true
				}
				it := map[types.Object]bool{}
				for _, kv := range []ast.Expr{s.Key, s.Value} {
					if id, ok := kv.(*ast.Ident); ok && id.Name != "_" {
						it[p.TypesInfo.ObjectOf(id)] = true
					}
				}
				visit(s.Body, it, s.Body)
				return false
			case *ast.ForStmt:
				if s == node {
					return true
				}
				it := map[types.Object]bool{}
				if as, ok := s.Init.(*ast.AssignStmt); ok {
					for _, l := range as.Lhs {
						if id, ok := l.(*ast.Ident); ok {
							it[p.TypesInfo.ObjectOf(id)] = true
						}
					}
				}
				visit(s.Body, it, s.Body)
				return false
			case *ast.CallExpr:
				sel, ok := s.Fun.(*ast.SelectorExpr)
				if ok && iter != nil && sel.Sel.Name != callee {
					// a helper method of the same receiver, called per row
					if hfd := helperDecl(p, s); hfd != nil && callsMethod(hfd.Body, callee) {
						hobjs := map[types.Object]bool{}
						pi := 0
						for _, fl := range hfd.Type.Params.List {
							for _, nm := range fl.Names {
								if pi < len(s.Args) && dependsOn(p, s.Args[pi], iter, body, 0) {
									hobjs[p.TypesInfo.Defs[nm]] = true
								}
								pi++
							}
						}
						helpers = append(helpers, hfd)
						visit(hfd.Body, hobjs, hfd.Body)
					}
					return true
				}
				if !ok || sel.Sel.Name != callee || len(s.Args) != 1 || iter == nil {
					return true
				}
				if _, isM := calleeOf(p, s).(*types.Func); !isM {
					return true
				}
				n++
				key := fmt.Sprintf("%s/%s.%s#%d", fn, exprStr(c.Fset, sel.X), callee, n)
				if dependsOn(p, s.Args[0], iter, body, 0) {
					c.ok(rule, key, s.Pos(), "the argument "+exprStr(c.Fset, s.Args[0])+" depends on the row being processed")
				} else {
					c.bad(rule, key, s.Pos(), "every row receives the same value "+exprStr(c.Fset, s.Args[0])+": it does not depend on the row, so rows of unequal extent are not mirrored about the alignment's span (only flush alignments come out right)")
				}
			}
			return true
		})
	}
	visit(fd.Body, nil, fd.Body)
	if n == 0 {
		c.und(rule, fn+"/"+callee, fd.Pos(), "no "+callee+" call inside a loop")
		return
	}
	// span-invariant: the alignment's span must be taken before the loop moves
	// the rows; a Start/End/Len call on the receiver inside the loop sees rows
	// that earlier iterations have already re-offset.
	var recv types.Object
	if fd.Recv != nil && len(fd.Recv.List) == 1 && len(fd.Recv.List[0].Names) == 1 {
		recv = p.TypesInfo.Defs[fd.Recv.List[0].Names[0]]
	}
	var badCall *ast.CallExpr
	ast.Inspect(fd.Body, func(x ast.Node) bool {
		var body *ast.BlockStmt
		switch s := x.(type) {
		case *ast.RangeStmt:
			body = s.Body
		case *ast.ForStmt:
			body = s.Body
		default:
			return true
		}
		hasCallee := false
		ast.Inspect(body, func(y ast.Node) bool {
			if call, ok := y.(*ast.CallExpr); ok {
				if sel, ok := call.Fun.(*ast.SelectorExpr); ok && sel.Sel.Name == callee {
					hasCallee = true
				}
			}
			return true
		})
		if !hasCallee {
			return true
		}
		ast.Inspect(body, func(y ast.Node) bool {
			call, ok := y.(*ast.CallExpr)
			if !ok {
				return true
			}
			sel, ok := call.Fun.(*ast.SelectorExpr)
			if !ok || (sel.Sel.Name != "Start" && sel.Sel.Name != "End" && sel.Sel.Name != "Len") {
				return true
			}
			if id, ok := unparen(sel.X).(*ast.Ident); ok && recv != nil && p.TypesInfo.ObjectOf(id) == recv {
				badCall = call
			}
			return true
		})
		return true
	})
	for _, h := range helpers {
		var hrecv types.Object
		if h.Recv != nil && len(h.Recv.List) == 1 && len(h.Recv.List[0].Names) == 1 {
			hrecv = p.TypesInfo.Defs[h.Recv.List[0].Names[0]]
		}
		ast.Inspect(h.Body, func(y ast.Node) bool {
			call, ok := y.(*ast.CallExpr)
			if !ok {
				return true
			}
			sel, ok := call.Fun.(*ast.SelectorExpr)
			if !ok || (sel.Sel.Name != "Start" && sel.Sel.Name != "End" && sel.Sel.Name != "Len") {
				return true
			}
			if id, ok := unparen(sel.X).(*ast.Ident); ok && hrecv != nil && p.TypesInfo.ObjectOf(id) == hrecv {
				badCall = call
			}
			return true
		})
	}
	key := fn + "/span-taken-before-loop"
	if badCall != nil {
		c.bad(rule, key, badCall.Pos(), "the alignment's span ("+exprStr(c.Fset, badCall)+") is recomputed inside the loop that re-offsets the rows: once an earlier row has moved, later rows are mirrored about a different span, so ragged alignments without a row covering the whole span are not mirrored and applying the operation twice does not restore them")
	} else {
		c.ok(rule, key, fd.Pos(), "no Start/End/Len of the alignment is evaluated inside the row loop")
	}
}

// ruleScratchReverse: Compose's scratch reverser.
func ruleScratchReverse(c *Ctx, rule string) {
	fd, p := c.decl("seq/sequtils", "Compose")
	// scratch objects: variables of the named interface type SliceReverser
	scratch := map[types.Object]bool{}
	ast.Inspect(fd.Body, func(n ast.Node) bool {
		if id, ok := n.(*ast.Ident); ok {
			if v, ok := p.TypesInfo.ObjectOf(id).(*types.Var); ok && isNamed(v.Type(), p.PkgPath, "SliceReverser") {
				// exclude the type-switch binding of src itself (it aliases the source)
				scratch[v] = true
			}
		}
		return true
	})
	recvObj := func(call *ast.CallExpr, name string) types.Object {
		sel, ok := call.Fun.(*ast.SelectorExpr)
		if !ok || sel.Sel.Name != name {
			return nil
		}
		id, ok := unparen(sel.X).(*ast.Ident)
		if !ok {
			return nil
		}
		return p.TypesInfo.ObjectOf(id)
	}
	// reads: X.Append(r.Slice())
	type read struct {
		call *ast.CallExpr
		obj  types.Object
	}
	var reads []read
	ast.Inspect(fd.Body, func(n ast.Node) bool {
		call, ok := n.(*ast.CallExpr)
		if !ok {
			return true
		}
		if sel, ok := call.Fun.(*ast.SelectorExpr); ok && sel.Sel.Name == "Append" && len(call.Args) == 1 {
			if inner, ok := unparen(call.Args[0]).(*ast.CallExpr); ok && len(inner.Args) == 0 {
				if o := recvObj(inner, "Slice"); o != nil && scratch[o] {
					// only scratch objects that are also SetSlice targets (the source binding is not)
					reads = append(reads, read{inner, o})
				}
			}
		}
		return true
	})
	if len(reads) == 0 {
		// the reversal may sit in a private helper whose result is appended (c.Append(reverseSegment(&r, src, seg))):
		// the helper's own scratch object, read where it returns r.Slice()
		var helper *ast.FuncDecl
		ast.Inspect(fd.Body, func(n ast.Node) bool {
			call, ok := n.(*ast.CallExpr)
			if !ok {
				return true
			}
			if sel, ok := call.Fun.(*ast.SelectorExpr); ok && sel.Sel.Name == "Append" && len(call.Args) == 1 {
				if inner, ok := unparen(call.Args[0]).(*ast.CallExpr); ok {
					if h := helperDecl(p, inner); h != nil && h.Recv == nil {
						helper = h
					}
				}
			}
			return true
		})
		if helper != nil {
			scratch = map[types.Object]bool{}
			ast.Inspect(helper.Body, func(n ast.Node) bool {
				if id, ok := n.(*ast.Ident); ok {
					if v, ok := p.TypesInfo.ObjectOf(id).(*types.Var); ok && isNamed(v.Type(), p.PkgPath, "SliceReverser") {
						scratch[v] = true
					}
				}
				return true
			})
			// parameters of the helper are not its scratch (the source comes in as one)
			if helper.Type.Params != nil {
				for _, fl := range helper.Type.Params.List {
					for _, nm := range fl.Names {
						delete(scratch, p.TypesInfo.Defs[nm])
					}
				}
			}
			ast.Inspect(helper.Body, func(n ast.Node) bool {
				ret, ok := n.(*ast.ReturnStmt)
				if !ok {
					return true
				}
				for _, res := range ret.Results {
					if inner, ok := unparen(res).(*ast.CallExpr); ok && len(inner.Args) == 0 {
						if o := recvObj(inner, "Slice"); o != nil && scratch[o] {
							reads = append(reads, read{inner, o})
						}
					}
				}
				return true
			})
			if len(reads) > 0 {
				fd = helper
			}
		}
	}
	if len(reads) == 0 {
		c.und(rule, "sequtils.Compose/scratch-append", fd.Pos(), "no append of a scratch reverser's slice found")
		return
	}
	g := newCFG(p, fd.Body)
	for ri, rd := range reads {
		key := fmt.Sprintf("sequtils.Compose/append(%s.Slice())#%d", rd.obj.Name(), ri+1)
		type st struct{ set, rev bool }
		top := st{true, true}
		in := map[*cfg.Block]st{}
		have := map[*cfg.Block]bool{}
		in[g.Blocks[0]] = st{}
		have[g.Blocks[0]] = true
		work := []*cfg.Block{g.Blocks[0]}
		verdict, reason := "", ""
		for len(work) > 0 {
			b := work[0]
			work = work[1:]
			s := in[b]
			if b.Kind == cfg.KindRangeLoop || b.Kind == cfg.KindForLoop || b.Kind == cfg.KindForPost {
				s = st{} // a new iteration starts
			}
			for _, n := range b.Nodes {
				ast.Inspect(n, func(x ast.Node) bool {
					switch y := x.(type) {
					case *ast.FuncLit:
						return false
					case *ast.AssignStmt:
						for _, l := range y.Lhs {
							if id, ok := l.(*ast.Ident); ok && p.TypesInfo.ObjectOf(id) == rd.obj {
								// visit RHS first, then reset
								for _, r := range y.Rhs {
									_ = r
								}
								s = st{}
							}
						}
					case *ast.CallExpr:
						if recvObj(y, "SetSlice") == rd.obj {
							s = st{set: true}
						}
						if recvObj(y, "RevComp") == rd.obj || recvObj(y, "Reverse") == rd.obj {
							if s.set {
								s.rev = true
							}
						}
						if y == rd.call {
							if !s.set || !s.rev {
								verdict = VIOLATION
								switch {
								case !s.set:
									reason = "some path reaches this append in an iteration that has not installed the current segment in the scratch reverser (SetSlice is skipped): the previously reversed segment is appended again"
								default:
									reason = "some path reaches this append without reversing the segment installed in this iteration"
								}
							}
						}
					}
					return true
				})
			}
			for _, nb := range b.Succs {
				ns := s
				if have[nb] {
					old := in[nb]
					ns = st{old.set && s.set, old.rev && s.rev}
					if ns == old {
						continue
					}
				}
				_ = top
				in[nb], have[nb] = ns, true
				work = append(work, nb)
			}
		}
		if verdict == VIOLATION {
			c.bad(rule, key, rd.call.Pos(), reason)
		} else {
			c.ok(rule, key, rd.call.Pos(), "on every path of the iteration SetSlice(segment) and RevComp|Reverse of the scratch precede the append")
		}
	}
}

// helperDecl resolves a call to the declaration of a method of this package.
func helperDecl(p *packages.Package, call *ast.CallExpr) *ast.FuncDecl {
	fo, ok := calleeOf(p, call).(*types.Func)
	if !ok || fo.Pkg() != p.Types {
		return nil
	}
	for _, f := range p.Syntax {
		for _, d := range f.Decls {
			if fd, ok := d.(*ast.FuncDecl); ok && fd.Body != nil && p.TypesInfo.Defs[fd.Name] == fo {
				return fd
			}
		}
	}
	return nil
}

func callsMethod(n ast.Node, name string) bool {
	found := false
	ast.Inspect(n, func(x ast.Node) bool {
		if call, ok := x.(*ast.CallExpr); ok {
			if sel, ok := call.Fun.(*ast.SelectorExpr); ok && sel.Sel.Name == name {
				found = true
			}
		}
		return true
	})
	return found
}
