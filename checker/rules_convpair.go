// Rule E "convpair": coordinates cross the GFF text boundary only through
// the 1-based/0-based conversion pair — starts converted, ends not.
package main

import (
	"fmt"
	"go/ast"
	"go/token"
	"go/types"

	"golang.org/x/tools/go/packages"
)

type convpair struct {
	c           *Ctx
	p           *packages.Package
	rule        string
	startFields map[types.Object]bool
	endFields   map[types.Object]bool
	parsers     map[types.Object]bool // same-package functions that parse numbers
	keyN        map[string]int
}

func (cp *convpair) key(k string) string {
	cp.keyN[k]++
	if cp.keyN[k] > 1 {
		return fmt.Sprintf("%s#%d", k, cp.keyN[k])
	}
	return k
}

// fieldReturnedBy collects struct fields that methods named name return.
func (cp *convpair) fieldsReturnedBy(name string) map[types.Object]bool {
	out := map[types.Object]bool{}
	for _, f := range cp.p.Syntax {
		for _, d := range f.Decls {
			fd, ok := d.(*ast.FuncDecl)
			if !ok || fd.Recv == nil || fd.Name.Name != name || fd.Body == nil {
				continue
			}
			ast.Inspect(fd.Body, func(n ast.Node) bool {
				ret, ok := n.(*ast.ReturnStmt)
				if !ok || len(ret.Results) != 1 {
					return true
				}
				if sel, ok := unparen(ret.Results[0]).(*ast.SelectorExpr); ok {
					if s := cp.p.TypesInfo.Selections[sel]; s != nil && s.Kind() == types.FieldVal {
						out[s.Obj()] = true
					}
				}
				return true
			})
		}
	}
	return out
}

func (cp *convpair) isConv(call *ast.CallExpr, name string) bool {
	return isFunc(calleeOf(cp.p, call), modPath+"/feat", name)
}

func (cp *convpair) containsConv(e ast.Expr) bool {
	found := false
	ast.Inspect(e, func(n ast.Node) bool {
		if call, ok := n.(*ast.CallExpr); ok && (cp.isConv(call, "OneToZero") || cp.isConv(call, "ZeroToOne")) {
			found = true
		}
		return true
	})
	return found
}

// parsed: the expression depends on a number parsed from text (strconv.* or
// a same-package parse helper), following := locals inside fn.
func (cp *convpair) parsed(e ast.Expr, fn *ast.FuncDecl, depth int) bool {
	found := false
	ast.Inspect(e, func(n ast.Node) bool {
		switch x := n.(type) {
		case *ast.CallExpr:
			o := calleeOf(cp.p, x)
			if f, ok := o.(*types.Func); ok && f.Pkg() != nil && (f.Pkg().Path() == "strconv" || cp.parsers[f]) {
				found = true
			}
		case *ast.Ident:
			if depth > 3 {
				return true
			}
			v, ok := cp.p.TypesInfo.Uses[x].(*types.Var)
			if !ok || v.IsField() || v.Parent() == cp.p.Types.Scope() {
				return true
			}
			// local: look at its defining assignments in fn
			ast.Inspect(fn.Body, func(m ast.Node) bool {
				as, ok := m.(*ast.AssignStmt)
				if !ok {
					return true
				}
				for i, l := range as.Lhs {
					if id, ok := l.(*ast.Ident); ok && cp.p.TypesInfo.ObjectOf(id) == v {
						rhs := as.Rhs[0]
						if len(as.Rhs) == len(as.Lhs) {
							rhs = as.Rhs[i]
						}
						if cp.parsed(rhs, fn, depth+1) {
							found = true
						}
					}
				}
				return true
			})
		}
		return true
	})
	return found
}

func ruleConvPair(c *Ctx, rule string) {
	p := c.pkg("io/featio/gff")
	cp := &convpair{c: c, p: p, rule: rule, parsers: map[types.Object]bool{}, keyN: map[string]int{}}
	cp.startFields = cp.fieldsReturnedBy("Start")
	cp.endFields = cp.fieldsReturnedBy("End")
	if len(cp.startFields) < 2 || len(cp.endFields) < 2 {
		c.und(rule, "gff/start-end-fields", token.NoPos, fmt.Sprintf("found %d start and %d end fields from the Start()/End() methods, expected >= 2 each", len(cp.startFields), len(cp.endFields)))
		return
	}
	// parse helpers: functions of the package that call strconv.*
	for changed := true; changed; {
		changed = false
		for _, f := range p.Syntax {
			for _, d := range f.Decls {
				fd, ok := d.(*ast.FuncDecl)
				if !ok || fd.Body == nil || fd.Recv != nil {
					continue
				}
				o := p.TypesInfo.Defs[fd.Name]
				if cp.parsers[o] {
					continue
				}
				ast.Inspect(fd.Body, func(n ast.Node) bool {
					if call, ok := n.(*ast.CallExpr); ok {
						if f, ok := calleeOf(p, call).(*types.Func); ok && f.Pkg() != nil && (f.Pkg().Path() == "strconv" || cp.parsers[f]) {
							if !cp.parsers[o] {
								cp.parsers[o] = true
								changed = true
							}
						}
					}
					return true
				})
			}
		}
	}

	for _, f := range p.Syntax {
		for _, d := range f.Decls {
			fd, ok := d.(*ast.FuncDecl)
			if !ok || fd.Body == nil {
				continue
			}
			fname := "gff." + fd.Name.Name
			isWriterMethod := false
			if fd.Recv != nil && len(fd.Recv.List) == 1 {
				t := p.TypesInfo.Types[fd.Recv.List[0].Type].Type
				fname = "gff.(" + types.TypeString(t, func(*types.Package) string { return "" }) + ")." + fd.Name.Name
				isWriterMethod = isNamed(t, p.PkgPath, "Writer")
			}
			// reader side: stores into start/end fields of parsed values
			check := func(field types.Object, val ast.Expr, pos token.Pos) {
				isStart, isEnd := cp.startFields[field], cp.endFields[field]
				if !isStart && !isEnd {
					return
				}
				if !cp.parsed(val, fd, 0) {
					return
				}
				c.Funcs[fname] = true
				if isStart {
					key := cp.key(fname + "/parse-start " + field.Name())
					if call, ok := unparen(val).(*ast.CallExpr); ok && cp.isConv(call, "OneToZero") {
						c.ok(rule, key, pos, "parsed 1-based start is converted by feat.OneToZero before it is stored")
					} else {
						c.bad(rule, key, pos, "a start coordinate parsed from GFF text is stored into "+field.Name()+" without feat.OneToZero: the feature is shifted by one (text is 1-based inclusive, features are 0-based half-open)")
					}
				} else {
					key := cp.key(fname + "/parse-end " + field.Name())
					if cp.containsConv(val) {
						c.bad(rule, key, pos, "an end coordinate parsed from GFF text is converted: a 1-based inclusive end equals the 0-based exclusive end, converting it shortens the feature")
					} else {
						c.ok(rule, key, pos, "parsed end is stored unconverted (1-based inclusive end == 0-based exclusive end)")
					}
				}
			}
			ast.Inspect(fd.Body, func(n ast.Node) bool {
				switch x := n.(type) {
				case *ast.CompositeLit:
					for _, el := range x.Elts {
						kv, ok := el.(*ast.KeyValueExpr)
						if !ok {
							continue
						}
						if id, ok := kv.Key.(*ast.Ident); ok {
							if fo := p.TypesInfo.Uses[id]; fo != nil {
								check(fo, kv.Value, kv.Pos())
							}
						}
					}
				case *ast.AssignStmt:
					if len(x.Lhs) == len(x.Rhs) {
						for i, l := range x.Lhs {
							if sel, ok := unparen(l).(*ast.SelectorExpr); ok {
								if s := p.TypesInfo.Selections[sel]; s != nil && s.Kind() == types.FieldVal {
									check(s.Obj(), x.Rhs[i], x.Pos())
								}
							}
						}
					}
				}
				return true
			})
			_ = isWriterMethod
		}
	}
	// writer side: flow of coordinate reads into fmt.Fprint* arguments (SSA, through helpers)
	ruleConvFlow(c, rule, cp)
}

// coordKind: does e read a start (1) or end (2) coordinate?
func (cp *convpair) coordKind(e ast.Expr) int {
	switch x := unparen(e).(type) {
	case *ast.SelectorExpr:
		if s := cp.p.TypesInfo.Selections[x]; s != nil && s.Kind() == types.FieldVal {
			if cp.startFields[s.Obj()] {
				return 1
			}
			if cp.endFields[s.Obj()] {
				return 2
			}
		}
	case *ast.CallExpr:
		if len(x.Args) == 0 {
			if sel, ok := x.Fun.(*ast.SelectorExpr); ok {
				if s := cp.p.TypesInfo.Selections[sel]; s != nil && s.Kind() == types.MethodVal {
					if t, ok := cp.p.TypesInfo.Types[x]; ok {
						if b, ok := t.Type.Underlying().(*types.Basic); ok && b.Kind() == types.Int {
							switch sel.Sel.Name {
							case "Start":
								return 1
							case "End":
								return 2
							}
						}
					}
				}
			}
		}
	}
	return 0
}

func (cp *convpair) checkFormatArg(fname string, arg ast.Expr) {
	c := cp.c
	arg = unparen(arg)
	if k := cp.coordKind(arg); k != 0 {
		c.Funcs[fname] = true
		if k == 1 {
			c.bad(cp.rule, cp.key(fname+"/format-start"), arg.Pos(), "a 0-based start coordinate ("+exprStr(c.Fset, arg)+") is formatted into GFF text without feat.ZeroToOne: written features are shifted by one")
		} else {
			c.ok(cp.rule, cp.key(fname+"/format-end"), arg.Pos(), "end is written unconverted")
		}
		return
	}
	call, ok := arg.(*ast.CallExpr)
	if !ok || len(call.Args) != 1 {
		return
	}
	inner := cp.coordKind(call.Args[0])
	if inner == 0 {
		return
	}
	c.Funcs[fname] = true
	isZ, isO := cp.isConv(call, "ZeroToOne"), cp.isConv(call, "OneToZero")
	switch {
	case inner == 1 && isZ:
		c.ok(cp.rule, cp.key(fname+"/format-start"), arg.Pos(), "start is written through feat.ZeroToOne")
	case inner == 1:
		c.bad(cp.rule, cp.key(fname+"/format-start"), arg.Pos(), "a start coordinate is written through "+exprStr(c.Fset, call.Fun)+" instead of feat.ZeroToOne")
	case inner == 2 && (isZ || isO):
		c.bad(cp.rule, cp.key(fname+"/format-end"), arg.Pos(), "an end coordinate is converted when written: a 0-based exclusive end equals the 1-based inclusive end")
	}
}

// ruleZeroColour: the BED reader turns the single field "0" into the zero
// colour color.RGBA{} and "r,g,b" into {r,g,b,0xff}. The writer may spell a
// colour "0" only if it equals that zero colour in all four components; a
// test that ignores alpha writes opaque black as "0", which reads back as
// a different colour.
func ruleZeroColour(c *Ctx, rule string) {
	fd, p := c.decl("io/featio/bed", "format")
	n := 0
	visit := zeroColourVisitor(c, rule, p, &n)
	for _, d := range astReach(p, fd) {
		ast.Inspect(d.Body, func(x ast.Node) bool { return visit(x) })
	}
	if n == 0 {
		c.und(rule, "bed.format/zero-colour-test", fd.Pos(), "no branch writing the \"0\" colour found")
	}
}

// astReach: fd and the functions of its package that it calls (transitively), in call order.
func astReach(p *packages.Package, fd *ast.FuncDecl) []*ast.FuncDecl {
	out := []*ast.FuncDecl{fd}
	seen := map[*ast.FuncDecl]bool{fd: true}
	for i := 0; i < len(out) && i < 16; i++ {
		ast.Inspect(out[i].Body, func(x ast.Node) bool {
			if call, ok := x.(*ast.CallExpr); ok {
				if h := helperDecl(p, call); h != nil && !seen[h] {
					seen[h] = true
					out = append(out, h)
				}
			}
			return true
		})
	}
	return out
}

func zeroColourVisitor(c *Ctx, rule string, p *packages.Package, n *int) func(x ast.Node) bool {
	return func(x ast.Node) bool {
		ifs, ok := x.(*ast.IfStmt)
		if !ok {
			return true
		}
		// does the then-branch write the single byte '0'?
		writesZero := false
		ast.Inspect(ifs.Body, func(y ast.Node) bool {
			if cl, ok := y.(*ast.CompositeLit); ok && len(cl.Elts) == 1 {
				if k, ok := constInt(p, cl.Elts[0]); ok && k == '0' {
					writesZero = true
				}
			}
			if s, ok := constStr(p, asExpr(y)); ok && s == "0" {
				writesZero = true
			}
			return true
		})
		if !writesZero {
			return true
		}
		// only the innermost test that selects the "0" spelling
		nested := false
		ast.Inspect(ifs.Body, func(y ast.Node) bool {
			if inner, ok := y.(*ast.IfStmt); ok {
				ast.Inspect(inner.Body, func(z ast.Node) bool {
					if cl, ok := z.(*ast.CompositeLit); ok && len(cl.Elts) == 1 {
						if k, ok := constInt(p, cl.Elts[0]); ok && k == '0' {
							nested = true
						}
					}
					if s, ok := constStr(p, asExpr(z)); ok && s == "0" {
						nested = true
					}
					return true
				})
			}
			return true
		})
		if nested {
			return true
		}
		*n++
		key := fmt.Sprintf("bed.format/zero-colour-test#%d", *n)
		whole, alpha := false, false
		ast.Inspect(ifs.Cond, func(y ast.Node) bool {
			switch e := y.(type) {
			case *ast.CompositeLit:
				if tv, ok := p.TypesInfo.Types[e]; ok && isNamed(tv.Type, "image/color", "RGBA") && len(e.Elts) == 0 {
					whole = true
				}
			case *ast.SelectorExpr:
				if s := p.TypesInfo.Selections[e]; s != nil && s.Kind() == types.FieldVal && e.Sel.Name == "A" {
					alpha = true
				}
			}
			return true
		})
		if whole || alpha {
			c.ok(rule, key, ifs.Pos(), "the \"0\" spelling is chosen by a comparison that includes the alpha component")
		} else {
			c.bad(rule, key, ifs.Pos(), "the writer spells a colour \"0\" under a test that ignores its alpha component: opaque black {0,0,0,255} — what the reader produces for \"0,0,0\" — is written as \"0\" and reads back as the zero colour")
		}
		return true
	}
}

func asExpr(n ast.Node) ast.Expr {
	if e, ok := n.(ast.Expr); ok {
		return e
	}
	return nil
}
