// Rules added after the fourth round of seeded changes (DESIGN §10.3).
package main

import (
	"fmt"
	"go/constant"
	"go/token"
	"go/types"
	"sort"
	"strings"

	"golang.org/x/tools/go/ssa"
)

// ---- spancheck (C02): a start/end sanity test is made in one coordinate space ----

// ruleSpanCheck: where gff's readers reject a line by comparing the parsed
// start column with the parsed end column, the test must be the emptiness
// test of the zero-based half-open interval: reject exactly when
// end - (start1 - 1) <= 0, i.e. end - start1 < 0 for the raw 1-based start.
// Comparing the raw start with >= rejects every single-base feature.
func ruleSpanCheck(c *Ctx, rule string) {
	sp := c.SPkgs[c.pkg("io/featio/gff").PkgPath]
	alias := func(v ssa.Value) (string, bool) {
		if call, ok := v.(*ssa.Call); ok {
			if sf := call.Call.StaticCallee(); sf != nil && sf.Name() == "mustAtoi" && len(call.Call.Args) >= 2 {
				if k, ok := constIntVal(call.Call.Args[1]); ok {
					return fmt.Sprintf("col%d", k), true
				}
			}
		}
		return "", false
	}
	env := &linEnv{alias: alias}
	n := 0
	for _, fn := range srcFuncs(sp) {
		for _, b := range fn.Blocks {
			ifi, ok := b.Instrs[len(b.Instrs)-1].(*ssa.If)
			if !ok {
				continue
			}
			bo, ok := ifi.Cond.(*ssa.BinOp)
			if !ok {
				continue
			}
			for edge, succ := range b.Succs {
				if !rejectsFrom(b, succ) {
					continue
				}
				f, ok := strictForm(bo, edge, env)
				if !ok {
					continue
				}
				var cols []string
				for a := range f.coef {
					if strings.HasPrefix(a, "col") {
						cols = append(cols, a)
					} else {
						cols = nil
						break
					}
				}
				if len(cols) != 2 {
					continue
				}
				sort.Strings(cols)
				n++
				c.Funcs[funcName(fn)] = true
				key := fmt.Sprintf("%s/start-end-test#%d", funcName(fn), n)
				// cols[0] is the start column (lower index), cols[1] the end column
				want := linAtom(cols[1]).add(linAtom(cols[0]), -1)
				if f.equal(want) {
					c.ok(rule, key, bo.Pos(), "a line is rejected exactly when its zero-based half-open interval is empty or inverted ("+want.String()+" < 0 on the 1-based text values)")
				} else {
					c.bad(rule, key, bo.Pos(), "a line is rejected when "+f.String()+" < 0 on the text values; the interval [start-1, end) is empty or inverted exactly when "+want.String()+" < 0, so valid features (a single base has start == end in the text) are rejected, or inverted ones accepted")
				}
			}
		}
	}
	if n == 0 {
		c.triv(rule, "gff/start-end-test", token.NoPos, "no reader rejects a line by comparing its start and end columns")
	}
}

// ---- linelimit (C02/C04): line readers have no hidden line-length limit ----

func ruleLineLimit(c *Ctx, rule string, shorts ...string) {
	n := 0
	for _, short := range shorts {
		sp := c.SPkgs[c.pkg(short).PkgPath]
		for _, fn := range srcFuncs(sp) {
			for _, b := range fn.Blocks {
				for _, ins := range b.Instrs {
					call, ok := ins.(*ssa.Call)
					if !ok || !calleeIs(&call.Call, "bufio", "NewScanner") {
						continue
					}
					n++
					c.Funcs[funcName(fn)] = true
					key := fmt.Sprintf("%s/bufio.Scanner#%d", funcName(fn), n)
					// is Buffer() ever called on a scanner in this package?
					raised := false
					for _, g := range srcFuncs(sp) {
						for _, gb := range g.Blocks {
							for _, gi := range gb.Instrs {
								if gc, ok := gi.(*ssa.Call); ok && methodIs(&gc.Call, "bufio", "Scanner", "Buffer") {
									raised = true
								}
							}
						}
					}
					if raised {
						c.und(rule, key, call.Pos(), "a bufio.Scanner with an explicit Buffer: the limit it sets is not evaluated")
					} else {
						c.bad(rule, key, call.Pos(), "records are read through a bufio.Scanner with its default buffer: a line longer than bufio.MaxScanTokenSize (64 KiB) ends the scan with ErrTooLong, so a long record (a BED12 line with thousands of blocks) that the writer produced cannot be read back")
					}
				}
			}
		}
	}
	if n == 0 {
		c.triv(rule, "readers/bufio.Scanner", token.NoPos, "no reader uses bufio.Scanner (ReadBytes/ReadLine impose no line-length limit)")
	}
}

// ---- recovercover (C03): every explicit panic of a parser is under a recover-to-error converter ----

// deferConvertersAt: a defer of the recover-to-error converter has been
// executed on every path that reaches the instruction at: the defer's block
// dominates at's block (and precedes it inside one block). A defer further
// down the function does not protect what runs before it.
func deferConvertersAt(fn *ssa.Function, at ssa.Instruction) bool {
	for _, b := range fn.Blocks {
		for i, ins := range b.Instrs {
			d, ok := ins.(*ssa.Defer)
			if !ok {
				continue
			}
			if sf := d.Call.StaticCallee(); sf == nil || sf.Name() != "handlePanic" {
				continue
			}
			if at == nil {
				return true
			}
			ab := at.Block()
			if ab == b {
				for j, x := range b.Instrs {
					if x == at {
						if i < j {
							return true
						}
						break
					}
				}
				continue
			}
			if b.Dominates(ab) {
				return true
			}
		}
	}
	return false
}

func hasExplicitPanic(fn *ssa.Function) *ssa.Panic {
	for _, b := range fn.Blocks {
		for _, ins := range b.Instrs {
			if p, ok := ins.(*ssa.Panic); ok {
				return p
			}
		}
	}
	return nil
}

// ruleRecoverCover: starting from the readers' Read methods, every call path
// to a package function that panics explicitly (the mustAto* helpers) passes
// through a function that defers the recover-to-error converter. A path
// without one lets the parse error escape Read as a panic.
func ruleRecoverCover(c *Ctx, rule string, shorts ...string) {
	for _, short := range shorts {
		sp := c.SPkgs[c.pkg(short).PkgPath]
		var entry *ssa.Function
		for _, fn := range srcFuncs(sp) {
			if fn.Name() == "Read" && fn.Signature.Recv() != nil && isNamed(fn.Signature.Recv().Type(), sp.Pkg.Path(), "Reader") {
				entry = fn
			}
		}
		if entry == nil {
			c.und(rule, shortPkg(sp.Pkg.Path())+".(*Reader).Read", token.NoPos, "Reader.Read not found")
			continue
		}
		c.Funcs[funcName(entry)] = true
		type st struct {
			fn      *ssa.Function
			covered bool
		}
		seen := map[st]bool{}
		var badPath []string
		var badPos token.Pos
		nPanic := 0
		var walk func(fn *ssa.Function, covered bool, path []string)
		walk = func(fn *ssa.Function, covered bool, path []string) {
			if badPath != nil {
				return
			}
			s := st{fn, covered}
			if seen[s] {
				return
			}
			seen[s] = true
			path = append(path, funcName(fn))
			if hasExplicitPanic(fn) != nil {
				nPanic++
			}
			for _, b := range fn.Blocks {
				for _, ins := range b.Instrs {
					if p, ok := ins.(*ssa.Panic); ok && !covered && !deferConvertersAt(fn, p) {
						badPath = append([]string{}, path...)
						badPos = p.Pos()
						return
					}
				}
			}
			for _, b := range fn.Blocks {
				for _, ins := range b.Instrs {
					ci, ok := ins.(ssa.CallInstruction)
					if !ok {
						continue
					}
					if _, isDefer := ins.(*ssa.Defer); isDefer {
						continue
					}
					g := ci.Common().StaticCallee()
					if g == nil || g.Pkg != sp || g.Blocks == nil {
						continue
					}
					if g == fn {
						continue
					}
					walk(g, covered || deferConvertersAt(fn, ins), path)
				}
			}
		}
		walk(entry, false, nil)
		key := funcName(entry) + "/panics-under-converter"
		switch {
		case badPath != nil:
			c.bad(rule, key, badPos, "an explicit panic is reachable along "+strings.Join(badPath, " -> ")+" without any function on the way deferring the recover-to-error converter: a malformed line handled on that path makes Read panic instead of returning an error")
		case nPanic == 0:
			c.triv(rule, key, entry.Pos(), "no explicit panic is reachable from Read")
		default:
			c.ok(rule, key, entry.Pos(), fmt.Sprintf("every call path from Read to the %d explicitly panicking helper(s) passes a function that defers the converter", nPanic))
		}
	}
}

// ---- arrayrange (C03): subscripts of fixed-size tables fit for every value of their type ----

type ival struct{ lo, hi int64 }

// typeRange: the values of a small integer type.
func typeRange(t types.Type) (ival, bool) {
	b, ok := t.Underlying().(*types.Basic)
	if !ok {
		return ival{}, false
	}
	switch b.Kind() {
	case types.Uint8:
		return ival{0, 255}, true
	case types.Int8:
		return ival{-128, 127}, true
	case types.Uint16:
		return ival{0, 65535}, true
	case types.Int16:
		return ival{-32768, 32767}, true
	}
	return ival{}, false
}

// exactRange: the exact set of values of an expression built from one
// conversion chain of a small-typed value and constants (affine, so every
// value in the interval is taken).
func exactRange(v ssa.Value, depth int) (ival, bool) {
	if depth > 8 {
		return ival{}, false
	}
	if k, ok := constIntVal(v); ok {
		return ival{k, k}, true
	}
	switch x := v.(type) {
	case *ssa.Convert:
		if r, ok := typeRange(x.X.Type()); ok {
			// widening keeps the value; a narrowing conversion is not followed
			if w, ok2 := typeRange(x.Type()); ok2 && (r.lo < w.lo || r.hi > w.hi) {
				return w, true // wraps onto the whole narrower type
			}
			if inner, ok := exactRange(x.X, depth+1); ok {
				return inner, true
			}
			return r, true
		}
		if isIntegral(x.X.Type()) && isIntegral(x.Type()) {
			return exactRange(x.X, depth+1)
		}
	case *ssa.Parameter:
		return typeRange(x.Type())
	case *ssa.UnOp:
		if x.Op == token.MUL { // a load: any value of its type
			return typeRange(x.Type())
		}
	case *ssa.BinOp:
		if x.Op == token.ADD || x.Op == token.SUB {
			a, ok1 := exactRange(x.X, depth+1)
			b, ok2 := exactRange(x.Y, depth+1)
			if !ok1 || !ok2 {
				return ival{}, false
			}
			if a.lo != a.hi && b.lo != b.hi {
				return ival{}, false // two varying operands: extremes may be unreachable
			}
			var r ival
			if x.Op == token.ADD {
				r = ival{a.lo + b.lo, a.hi + b.hi}
			} else {
				r = ival{a.lo - b.hi, a.hi - b.lo}
			}
			// arithmetic in a small type wraps
			if w, ok := typeRange(x.Type()); ok && (r.lo < w.lo || r.hi > w.hi) {
				return w, true
			}
			return r, true
		}
	}
	return ival{}, false
}

// ruleArrayRange: a subscript of a fixed-size array whose value is an affine
// function of one small-typed input (a byte read from the file, a score) and
// is not constrained by any dominating comparison takes every value of its
// range for some input; the range must lie inside the array.
func ruleArrayRange(c *Ctx, rule string, shorts ...string) {
	n := 0
	for _, short := range shorts {
		sp := c.SPkgs[c.pkg(short).PkgPath]
		for _, fn := range srcFuncs(sp) {
			for _, b := range fn.Blocks {
				for _, ins := range b.Instrs {
					var base, idx ssa.Value
					switch x := ins.(type) {
					case *ssa.IndexAddr:
						base, idx = x.X, x.Index
					case *ssa.Index:
						base, idx = x.X, x.Index
					default:
						continue
					}
					var N int64
					switch t := base.Type().Underlying().(type) {
					case *types.Pointer:
						if arr, ok := t.Elem().Underlying().(*types.Array); ok {
							N = arr.Len()
						}
					case *types.Array:
						N = t.Len()
					}
					if N == 0 {
						continue
					}
					if _, isK := constIntVal(idx); isK {
						continue
					}
					r, ok := exactRange(idx, 0)
					if !ok || r.lo == r.hi {
						continue
					}
					// a dominating comparison on the subscript or its source: not decided here
					guarded := false
					srcs := map[ssa.Value]bool{idx: true}
					for v, d := idx, 0; d < 8; d++ {
						switch x := v.(type) {
						case *ssa.Convert:
							v = x.X
						case *ssa.BinOp:
							if _, ok := constIntVal(x.Y); ok {
								v = x.X
							} else {
								v = x.Y
							}
						default:
							d = 8
						}
						srcs[v] = true
					}
					for _, bf := range branchesAt(b) {
						if srcs[bf.cond.X] || srcs[bf.cond.Y] {
							guarded = true
						}
					}
					if guarded {
						continue
					}
					n++
					c.Funcs[funcName(fn)] = true
					key := fmt.Sprintf("%s/%s[%s]", funcName(fn), symName(base, nil), symName(idx, nil))
					if r.lo >= 0 && r.hi < N {
						c.ok(rule, key, ins.Pos(), fmt.Sprintf("the subscript takes exactly the values %d..%d, inside the %d-entry table", r.lo, r.hi, N))
					} else {
						c.bad(rule, key, ins.Pos(), fmt.Sprintf("the subscript takes every value in %d..%d for some input (it is an unguarded affine function of a %s), but the table has %d entries: such inputs raise a runtime index panic — in a reader without a recover-to-error converter that escapes Read", r.lo, r.hi, "small-typed value", N))
					}
				}
			}
		}
	}
	if n == 0 {
		c.und(rule, "arrayrange", token.NoPos, "no byte-derived table subscript found")
	}
}

// ---- parallelidx (C06): two slices indexed by one counter have the same length ----

// ruleParallelIdx: in Compose a loop ranges over the list of extracted
// segments and looks the feature of the same position up in the feature
// list. That is sound only if the segment list was made with exactly one
// slot per feature (make([]T, len(features)) and element stores) — a list
// built by conditional appends can be shorter, and every later segment is
// then oriented by the wrong feature.
func ruleParallelIdx(c *Ctx, rule string) {
	fn := c.fn("seq/sequtils", "Compose")
	c.Funcs[funcName(fn)] = true
	loops := naturalLoops(fn)
	n := 0
	for _, l := range loops {
		// the ranged slice: header compares counter with len(X)
		ifi, ok := l.head.Instrs[len(l.head.Instrs)-1].(*ssa.If)
		if !ok {
			continue
		}
		bo, ok := ifi.Cond.(*ssa.BinOp)
		if !ok || bo.Op != token.LSS {
			continue
		}
		lc := builtinCall(bo.Y, "len")
		if lc == nil {
			continue
		}
		ranged := lc.Call.Args[0]
		cnt := bo.X
		for b := range l.body {
			for _, ins := range b.Instrs {
				ia, ok := ins.(*ssa.IndexAddr)
				if !ok || ia.Index != cnt || ia.X == ranged {
					continue
				}
				if _, isSlice := ia.X.Type().Underlying().(*types.Slice); !isSlice {
					continue
				}
				other := ia.X
				n++
				key := fmt.Sprintf("sequtils.Compose/parallel-index#%d", n)
				// ranged must be make([]T, len(other)) — one slot per element of other
				okPar := false
				why := "it is not a make() with one slot per element of the other slice"
				if mk, ok := ranged.(*ssa.MakeSlice); ok {
					if ml := builtinCall(mk.Len, "len"); ml != nil && ml.Call.Args[0] == other {
						okPar = true
					} else {
						why = "it is made with a length other than len() of the other slice"
					}
				} else if mk, ok := other.(*ssa.MakeSlice); ok {
					if ml := builtinCall(mk.Len, "len"); ml != nil && ml.Call.Args[0] == ranged {
						okPar = true
					}
				} else if _, isPhi := ranged.(*ssa.Phi); isPhi {
					why = "it is built by appends (possibly skipping elements)"
				}
				if okPar {
					c.ok(rule, key, ia.Pos(), "the slice ranged over was made with one slot per element of the slice indexed by the same counter")
				} else {
					c.bad(rule, key, ia.Pos(), "the loop ranges over "+symName(ranged, nil)+" and indexes "+symName(other, nil)+" with the same counter, but the two need not have the same length: "+why+", so after a skipped element every later segment is paired with the wrong feature (and oriented by it)")
				}
			}
		}
	}
	if n == 0 {
		c.triv(rule, "sequtils.Compose/parallel-index", fn.Pos(), "no loop indexes a second slice with the counter of the ranged one")
	}
}

// ---- flagcases (C07): both ends are examined when both flags are given ----

// ruleFlagCases: Multi.IsFlush(where) may move on to the next row only if,
// for the start AND for the end, either the flag is not set or the row's
// coordinate equals the reference. Every path through the row loop that
// reaches the next iteration must therefore carry evidence for both sides:
// the false edge of the flag test, or the "equal" edge of the coordinate
// comparison. A tagless switch over the flags gives evidence for one side only.
func ruleFlagCases(c *Ctx, rule string) {
	fn := c.fn("seq/multi", "(*Multi).IsFlush")
	c.Funcs[funcName(fn)] = true
	key := funcName(fn) + "/both-ends-examined"
	seqPkg := c.pkg("seq")
	flag := map[int64]string{}
	for _, nm := range []string{"Start", "End"} {
		if k, ok := seqPkg.Types.Scope().Lookup(nm).(*types.Const); ok {
			if v, ok := constant.Int64Val(constant.ToInt(k.Val())); ok {
				flag[v] = nm
			}
		}
	}
	if len(flag) != 2 {
		c.und(rule, key, fn.Pos(), "constants seq.Start / seq.End not found")
		return
	}
	where := fn.Params[1]
	// classify an If: which side it speaks about and which edge is evidence
	classify := func(ifi *ssa.If) (side string, evEdge int) {
		bo, ok := ifi.Cond.(*ssa.BinOp)
		if !ok || (bo.Op != token.NEQ && bo.Op != token.EQL) {
			return "", -1
		}
		// flag test: where & K ?= 0
		if and, ok := bo.X.(*ssa.BinOp); ok && and.Op == token.AND {
			if z, ok := constIntVal(bo.Y); ok && z == 0 {
				var k int64
				var okK bool
				if and.X == ssa.Value(where) {
					k, okK = constIntVal(and.Y)
				} else if and.Y == ssa.Value(where) {
					k, okK = constIntVal(and.X)
				}
				if okK && flag[k] != "" {
					if bo.Op == token.NEQ {
						return flag[k], 1 // flag unset on the false edge
					}
					return flag[k], 0
				}
			}
		}
		// coordinate comparison: one operand is (a phi of / directly) a Start()/End() result
		name := func(v ssa.Value) string {
			for i := 0; i < 3; i++ {
				switch x := v.(type) {
				case *ssa.Call:
					if x.Call.IsInvoke() && len(x.Call.Args) == 0 {
						return x.Call.Method.Name()
					}
					return ""
				case *ssa.Phi:
					for _, e := range x.Edges {
						if cl, ok := e.(*ssa.Call); ok && cl.Call.IsInvoke() {
							return cl.Call.Method.Name()
						}
					}
					return ""
				default:
					return ""
				}
			}
			return ""
		}
		nx, ny := name(bo.X), name(bo.Y)
		s := ""
		if nx == "Start" || ny == "Start" {
			s = "Start"
		} else if nx == "End" || ny == "End" {
			s = "End"
		}
		if s == "" {
			return "", -1
		}
		if bo.Op == token.NEQ {
			return s, 1 // equal on the false edge
		}
		return s, 0
	}
	loops := naturalLoops(fn)
	if len(loops) == 0 {
		c.und(rule, key, fn.Pos(), "no row loop")
		return
	}
	l := loops[0]
	for _, x := range loops {
		if len(x.body) > len(l.body) {
			l = x
		}
	}
	type state struct {
		b    *ssa.BasicBlock
		s, e bool
	}
	seen := map[state]bool{}
	var bad *ssa.BasicBlock
	var walk func(b *ssa.BasicBlock, s, e bool, first bool)
	walk = func(b *ssa.BasicBlock, s, e bool, first bool) {
		if bad != nil {
			return
		}
		if b == l.head && !first {
			if !(s && e) {
				bad = b
			}
			return
		}
		if !l.body[b] {
			return // left the loop (return)
		}
		st := state{b, s, e}
		if seen[st] {
			return
		}
		seen[st] = true
		if ifi, ok := b.Instrs[len(b.Instrs)-1].(*ssa.If); ok && b != l.head {
			side, ev := classify(ifi)
			for edge, succ := range b.Succs {
				s2, e2 := s, e
				if side == "Start" && edge == ev {
					s2 = true
				}
				if side == "End" && edge == ev {
					e2 = true
				}
				walk(succ, s2, e2, false)
			}
			return
		}
		for _, succ := range b.Succs {
			walk(succ, s, e, false)
		}
	}
	// the first row only sets the reference: start after the `i > 0` style test by requiring
	// evidence only on paths that passed at least one classified test
	anyClassified := false
	for b := range l.body {
		if ifi, ok := b.Instrs[len(b.Instrs)-1].(*ssa.If); ok && b != l.head {
			if side, _ := classify(ifi); side != "" {
				anyClassified = true
			}
		}
	}
	if !anyClassified {
		c.und(rule, key, fn.Pos(), "no flag or coordinate test recognised in the row loop")
		return
	}
	// paths that skip all tests because the row is the reference row (i == 0 / i > 0 false) are exempt:
	// treat the false edge of a comparison of the loop counter with 0 as giving evidence for both sides
	origClassify := classify
	classifyRef := func(ifi *ssa.If) (string, int) {
		if bo, ok := ifi.Cond.(*ssa.BinOp); ok {
			if z, ok := constIntVal(bo.Y); ok && z == 0 {
				if _, _, isCnt := linearIn(bo.X); isCnt {
					switch bo.Op {
					case token.GTR, token.NEQ:
						return "both", 1
					case token.EQL, token.LEQ:
						return "both", 0
					}
				}
			}
		}
		return origClassify(ifi)
	}
	classify = classifyRef
	walkBoth := walk
	walk = func(b *ssa.BasicBlock, s, e bool, first bool) {
		if b != l.head && l.body[b] {
			if ifi, ok := b.Instrs[len(b.Instrs)-1].(*ssa.If); ok {
				if side, ev := classify(ifi); side == "both" {
					st := state{b, s, e}
					if seen[st] {
						return
					}
					seen[st] = true
					for edge, succ := range b.Succs {
						if edge == ev {
							walkBoth(succ, true, true, false)
						} else {
							walkBoth(succ, s, e, false)
						}
					}
					return
				}
			}
		}
		walkBoth(b, s, e, first)
	}
	for _, succ := range l.head.Succs {
		if l.body[succ] {
			walk(succ, false, false, false)
		}
	}
	if bad != nil {
		c.bad(rule, key, fn.Pos(), "some path through the row loop reaches the next row without having established, for both ends, that the flag is unset or the row's coordinate equals the reference: with where = Start|End only one end is examined, so an alignment ragged at the other end is reported flush and Flush returns without padding it")
	} else {
		c.ok(rule, key, fn.Pos(), "every path to the next row has, for the start and for the end, passed the unset-flag edge or the equal-coordinate edge")
	}
}

// ---- fillwatermark (C07): a doubling fill stops only when everything is filled ----

func ruleFillWatermark(c *Ctx, rule string, targets [][2]string) {
	for _, t := range targets {
		fn := c.fn(t[0], t[1])
		c.Funcs[funcName(fn)] = true
		key := funcName(fn) + "/copy-fill-complete"
		n := 0
		for _, l := range naturalLoops(fn) {
			var cp *ssa.Call
			for b := range l.body {
				for _, ins := range b.Instrs {
					if call, ok := ins.(*ssa.Call); ok && builtinCall(call, "copy") != nil {
						cp = call
					}
				}
			}
			if cp == nil {
				continue
			}
			dst, ok := cp.Call.Args[0].(*ssa.Slice)
			if !ok || dst.Low == nil {
				continue
			}
			wm, off, ok := linearIn(dst.Low)
			if !ok || off != 0 || wm.Block() != l.head {
				continue
			}
			n++
			// on the exit edge of the header: watermark >= len(r)
			ifi, ok := l.head.Instrs[len(l.head.Instrs)-1].(*ssa.If)
			if !ok {
				c.und(rule, key, cp.Pos(), "the fill loop has no header test")
				continue
			}
			bo, ok := ifi.Cond.(*ssa.BinOp)
			if !ok {
				c.und(rule, key, cp.Pos(), "the fill loop's test is not a comparison")
				continue
			}
			exitEdge := 1
			if !l.body[l.head.Succs[0]] {
				exitEdge = 0
			}
			f, ok := strictForm(bo, exitEdge, &linEnv{noInline: true})
			lenAtom := "len(" + symName(dst.X, nil) + ")"
			want := linAtom(lenAtom).add(linAtom(symName(wm, nil)), -1).add(linConst(-1), 1) // len - wm - 1 < 0  <=>  wm >= len
			if ok && f.equal(want) {
				c.ok(rule, key, cp.Pos(), "the loop ends only when the filled prefix has reached len(r)")
			} else {
				got := "an unrecognised test"
				if ok {
					got = f.String() + " < 0"
				}
				c.bad(rule, key, cp.Pos(), "the fill loop copies the filled prefix onto the rest and ends when "+got+", which does not imply that the filled prefix has reached len(r) ("+want.String()+" < 0): the tail of a long run keeps the zero letter instead of the repeated one")
			}
		}
		if n == 0 {
			c.triv(rule, key, fn.Pos(), "no prefix-doubling copy loop")
		}
	}
}

// ---- tablezero (C08): the DP table starts zeroed ----

func ruleTableZero(c *Ctx, rule string, fns []*ssa.Function) {
	for _, fn := range fns {
		c.Funcs[funcName(fn)] = true
		key := funcName(fn) + "/table-zeroed"
		// the table: the slice whose elements are indexed by an expression containing a product (i*c+j)
		var table ssa.Value
		for _, b := range fn.Blocks {
			for _, ins := range b.Instrs {
				ia, ok := ins.(*ssa.IndexAddr)
				if !ok || table != nil {
					continue
				}
				if add, ok := ia.Index.(*ssa.BinOp); ok && add.Op == token.ADD {
					if mul, ok := add.X.(*ssa.BinOp); ok && mul.Op == token.MUL {
						if _, isSl := ia.X.Type().Underlying().(*types.Slice); isSl && addrWritten(ia) {
							table = ia.X
						}
					}
				}
			}
		}
		if table == nil {
			// rows addressed through views table[i*c:(i+1)*c]: the table is what the views are cut from
			for _, b := range fn.Blocks {
				for _, ins := range b.Instrs {
					sl, ok := ins.(*ssa.Slice)
					if !ok || table != nil || sl.Low == nil {
						continue
					}
					if mul, ok := sl.Low.(*ssa.BinOp); ok && mul.Op == token.MUL {
						if _, isSl := sl.X.Type().Underlying().(*types.Slice); isSl && isIntegral(sl.X.Type().Underlying().(*types.Slice).Elem()) {
							written := false
							for _, r := range *sl.Referrers() {
								if ia, ok := r.(*ssa.IndexAddr); ok && addrWritten(ia) {
									written = true
								}
							}
							if written {
								table = sl.X
							}
						}
					}
				}
			}
		}
		if table == nil {
			// a running cell index (p++ along the row): the table is the slice of r*c cells written inside
			// the doubly nested loop
			loops := naturalLoops(fn)
			depth := func(b *ssa.BasicBlock) int {
				n := 0
				for _, l := range loops {
					if l.body[b] {
						n++
					}
				}
				return n
			}
			cands := map[ssa.Value]bool{}
			for _, b := range fn.Blocks {
				if depth(b) < 2 {
					continue
				}
				for _, ins := range b.Instrs {
					ia, ok := ins.(*ssa.IndexAddr)
					if !ok || !addrWritten(ia) {
						continue
					}
					if _, isSl := ia.X.Type().Underlying().(*types.Slice); !isSl {
						continue
					}
					var size ssa.Value
					switch d := ia.X.(type) {
					case *ssa.MakeSlice:
						size = d.Len
					case *ssa.Slice:
						size = d.High
					}
					if m, ok := size.(*ssa.BinOp); ok && m.Op == token.MUL && m.X != m.Y {
						cands[ia.X] = true
					}
				}
			}
			if len(cands) == 1 {
				for t := range cands {
					table = t
				}
			}
		}
		if table == nil {
			c.und(rule, key, fn.Pos(), "no table[i*c+j] access found")
			continue
		}
		switch x := table.(type) {
		case *ssa.MakeSlice:
			c.ok(rule, key, x.Pos(), "the table is a fresh make(): every cell the recurrence reads before writing it (the origin, and for local alignments the whole first row and column) is zero")
		default:
			cleared := false
			for _, b := range fn.Blocks {
				for _, ins := range b.Instrs {
					if call, ok := ins.(*ssa.Call); ok && builtinCall(call, "clear") != nil && call.Call.Args[0] == table {
						cleared = true
					}
				}
			}
			if cleared {
				c.ok(rule, key, fn.Pos(), "the table is cleared before use")
			} else {
				c.bad(rule, key, table.Pos(), "the DP table is not a fresh make() (it comes from "+symName(table, nil)+") and is not cleared: cells the recurrence reads without writing them first — the origin, and for local alignments the first row and column — hold whatever an earlier alignment left there, so scores are no longer optimal")
			}
		}
	}
}

// ---- argmaxlayer (C08): the traceback starts in the best layer of the final cell ----

func ruleArgmaxLayer(c *Ctx, rule string, fns []*ssa.Function) {
	for _, fn := range fns {
		c.Funcs[funcName(fn)] = true
		key := funcName(fn) + "/start-layer"
		// comparisons between two loads of elements of a [3]int cell copy
		isCellElem := func(v ssa.Value) (int64, bool, bool) { // index, isConstIdx, ok
			u, ok := v.(*ssa.UnOp)
			if !ok || u.Op != token.MUL {
				return 0, false, false
			}
			ia, ok := u.X.(*ssa.IndexAddr)
			if !ok {
				return 0, false, false
			}
			pt, ok := ia.X.Type().Underlying().(*types.Pointer)
			if !ok {
				if sl, ok := ia.X.(*ssa.Slice); ok {
					_ = sl
				}
				// a slice of the cell (t[1:]) is fine too
				if _, isSl := ia.X.Type().Underlying().(*types.Slice); !isSl {
					return 0, false, false
				}
				if k, ok := constIntVal(ia.Index); ok {
					return k, true, true
				}
				return 0, false, true
			}
			arr, ok := pt.Elem().Underlying().(*types.Array)
			if !ok || arr.Len() != 3 {
				return 0, false, false
			}
			if _, isAlloc := ia.X.(*ssa.Alloc); !isAlloc {
				return 0, false, false
			}
			if k, ok := constIntVal(ia.Index); ok {
				return k, true, true
			}
			return 0, false, true
		}
		running := false
		fixedRHS := map[int64]int{}
		var pos token.Pos
		for _, b := range fn.Blocks {
			for _, ins := range b.Instrs {
				bo, ok := ins.(*ssa.BinOp)
				if !ok || (bo.Op != token.GTR && bo.Op != token.GEQ && bo.Op != token.LSS && bo.Op != token.LEQ) {
					continue
				}
				_, _, okX := isCellElem(bo.X)
				if !okX {
					continue
				}
				if phi, ok := bo.Y.(*ssa.Phi); ok {
					// running best: the phi merges the initial element and the compared element
					for _, e := range phi.Edges {
						if e == bo.X {
							running = true
						}
					}
					_ = phi
					continue
				}
				if k, isK, okY := isCellElem(bo.Y); okY && isK {
					fixedRHS[k]++
					pos = bo.Pos()
				} else if okY {
					running = true // compared with the element of the layer chosen so far
				}
			}
		}
		switch {
		case running:
			c.ok(rule, key, fn.Pos(), "the start layer is chosen by a running maximum over the layers of the final cell")
		case len(fixedRHS) > 0:
			bad := false
			for _, n := range fixedRHS {
				if n >= 2 {
					bad = true
				}
			}
			if bad {
				c.bad(rule, key, pos, "the start layer is chosen by separate comparisons of two layers against the same third one: when both exceed it the later test wins whichever of the two is larger, so the traceback can start in a layer that does not hold the optimum and the returned alignment scores less than the table's best")
			} else {
				c.und(rule, key, pos, "layer comparisons found but neither a running maximum nor the two-against-one pattern")
			}
		default:
			c.triv(rule, key, fn.Pos(), "the traceback of this aligner does not choose among layers at the final cell")
		}
	}
}

// ---- emitnotscore (C09): a finished block is emitted whatever its score ----

func ruleEmitNotScore(c *Ctx, rule string, fns []*ssa.Function) {
	for _, fn := range fns {
		c.Funcs[funcName(fn)] = true
		key := funcName(fn) + "/block-emission-guard"
		// the accumulated block score: the phi named "score"
		n, badN := 0, 0
		var badPos token.Pos
		for _, b := range fn.Blocks {
			ifi, ok := b.Instrs[len(b.Instrs)-1].(*ssa.If)
			if !ok {
				continue
			}
			bo, ok := ifi.Cond.(*ssa.BinOp)
			if !ok || (bo.Op != token.NEQ && bo.Op != token.EQL) {
				continue
			}
			z, isZ := constIntVal(bo.Y)
			phi, isPhi := bo.X.(*ssa.Phi)
			if !isZ || z != 0 || !isPhi || phi.Comment != "score" {
				continue
			}
			// does this test control an append of a pair?
			controls := false
			for _, succ := range b.Succs {
				for _, ins := range succ.Instrs {
					if call, ok := ins.(*ssa.Call); ok && builtinCall(call, "append") != nil {
						controls = true
					}
				}
			}
			if !controls {
				continue
			}
			n++
			badN++
			badPos = bo.Pos()
		}
		if badN > 0 {
			c.bad(rule, key, badPos, fmt.Sprintf("%d emission(s) of a finished block are conditional on the block's accumulated score being non-zero: a block whose matches and mismatches sum to zero is a real block and must be emitted, otherwise its letters are folded into the neighbouring gap and the pair is neither an ungapped block nor a one-sided gap", badN))
		} else {
			c.ok(rule, key, fn.Pos(), "no block emission depends on the accumulated score")
		}
		_ = n
	}
}

// ---- noexpose (C10): query results do not alias the index's tables ----

func ruleNoExpose(c *Ctx, rule string) {
	pkg := modPath + "/index/kmerindex"
	sp := c.SPkgs[c.pkg("index/kmerindex").PkgPath]
	n := 0
	for _, fn := range srcFuncs(sp) {
		if fn.Parent() != nil || fn.Signature.Recv() == nil || !isNamed(fn.Signature.Recv().Type(), pkg, "Index") || !ast_IsExported(fn.Name()) {
			continue
		}
		res := fn.Signature.Results()
		for i := 0; i < res.Len(); i++ {
			if _, isSl := res.At(i).Type().Underlying().(*types.Slice); !isSl {
				continue
			}
			n++
			c.Funcs[funcName(fn)] = true
			key := fmt.Sprintf("%s/result#%d", funcName(fn), i)
			exposed := ""
			for _, r := range returnsOf(fn) {
				v := r.Results[i]
				if u, ok := v.(*ssa.UnOp); ok && u.Op == token.MUL {
					// named result: follow the stores
					if al, ok := u.X.(*ssa.Alloc); ok {
						for _, rr := range *al.Referrers() {
							if st, ok := rr.(*ssa.Store); ok && st.Addr == ssa.Value(al) {
								if f := internalTable(st.Val, pkg); f != "" {
									exposed = f
								}
							}
						}
						continue
					}
				}
				if f := internalTable(v, pkg); f != "" {
					exposed = f
				}
			}
			if exposed != "" {
				c.bad(rule, key, fn.Pos(), "the method returns (a sub-slice of) the index's internal table "+exposed+": a caller that edits or appends to the result corrupts the positions reported by later queries")
			} else {
				c.ok(rule, key, fn.Pos(), "the returned slice is not (a sub-slice of) an internal table of the index")
			}
		}
	}
	if n == 0 {
		c.und(rule, "kmerindex/slice-results", token.NoPos, "no exported Index method returns a slice")
	}
}

func ast_IsExported(name string) bool { return name != "" && name[0] >= 'A' && name[0] <= 'Z' }

func internalTable(v ssa.Value, pkg string) string {
	for i := 0; i < 4; i++ {
		switch x := v.(type) {
		case *ssa.Slice:
			v = x.X
		case *ssa.ChangeType:
			v = x.X
		case *ssa.UnOp:
			if x.Op == token.MUL {
				if name, ok := fieldOf(x.X, pkg, "Index"); ok {
					return name
				}
			}
			return ""
		default:
			return ""
		}
	}
	return ""
}

// ---- preloadbound (C10): the first reported position is not before start ----

func rulePreloadBound(c *Ctx, rule string) {
	fn := c.fn("index/kmerindex", "(*Index).ForEachKmerOf")
	c.Funcs[funcName(fn)] = true
	key := funcName(fn) + "/first-position-not-before-start"
	var cb *ssa.Parameter
	for _, p := range fn.Params {
		if _, ok := p.Type().Underlying().(*types.Signature); ok {
			cb = p
		}
	}
	var call *ssa.Call
	for _, b := range fn.Blocks {
		for _, ins := range b.Instrs {
			if cl, ok := ins.(*ssa.Call); ok && cb != nil && cl.Call.Value == ssa.Value(cb) && len(cl.Call.Args) == 3 {
				call = cl
			}
		}
	}
	if call == nil {
		c.und(rule, key, fn.Pos(), "the callback call was not found")
		return
	}
	// the report itself may be guarded: position >= start follows from the comparisons dominating the call
	// (one loop for preload and scan, reporting only from the base that completes the first k-mer on)
	{
		env := &linEnv{noInline: true}
		g := linAtom(fn.Params[2].Name()).add(linOf(call.Call.Args[1], env), -1)
		var facts []lin
		for _, bf := range branchesAt(call.Block()) {
			if f, ok := strictForm(bf.cond, bf.edge, env); ok {
				facts = append(facts, f)
			}
		}
		if provable(g, facts) {
			c.ok(rule, key, call.Pos(), "the call of the callback is dominated by comparisons from which position >= start follows: no window before the requested range is reported")
			return
		}
	}
	P, aForm, ok := phiPlusForm(call.Call.Args[1], &linEnv{noInline: true})
	if !ok {
		c.und(rule, key, call.Pos(), "the reported position is not a loop counter plus an offset")
		return
	}
	var init ssa.Value
	var initPred *ssa.BasicBlock
	for i, pred := range P.Block().Preds {
		if !P.Block().Dominates(pred) {
			init, initPred = P.Edges[i], pred
		}
	}
	if init == nil {
		c.und(rule, key, call.Pos(), "no initial value of the position counter")
		return
	}
	env := &linEnv{noInline: true}
	start := fn.Params[2].Name()
	// goal: start - (init + a) <= 0
	g := linAtom(start).add(linOf(init, env), -1).add(aForm, -1)
	var facts []lin
	for _, bf := range append(branchesAt(initPred), factsOnEdgeOnly(initPred, P.Block())...) {
		if f, ok := strictForm(bf.cond, bf.edge, env); ok {
			facts = append(facts, f)
		}
	}
	// also: the callback is guarded by position >= high; an initial high >= start would do as well
	if provable(g, facts) {
		c.ok(rule, key, call.Pos(), "when the scanning loop is entered the position counter is at least start (from the exit test of the preload loop): no window before the requested range is reported")
	} else {
		c.bad(rule, key, call.Pos(), "nothing establishes that the first reported position ("+linOf(init, env).String()+") is at least start when the scanning loop is entered: for a sub-range with start > 0 the preload does not consume k-1 letters of the range, so windows that begin before the range are reported")
	}
}

// factsOnEdgeOnly: the branch fact of the edge pred -> succ itself.
func factsOnEdgeOnly(pred, succ *ssa.BasicBlock) []branchFact {
	if ifi, ok := pred.Instrs[len(pred.Instrs)-1].(*ssa.If); ok {
		if bo, ok := ifi.Cond.(*ssa.BinOp); ok {
			for e, s := range pred.Succs {
				if s == succ {
					return []branchFact{{bo, e}}
				}
			}
		}
	}
	return nil
}

// ---- selfguard (C15): the self-comparison guard tests the negated diagonal ----

func ruleSelfGuard(c *Ctx, rule string) {
	pkg := modPath + "/align/pals/filter"
	fn := c.fn("align/pals/filter", "(*Merger).MergeFilterHit")
	c.Funcs[funcName(fn)] = true
	key := funcName(fn) + "/self-comparison-guard"
	alias := func(v ssa.Value) (string, bool) {
		if loadOfField(v, pkg, "Hit", "Diagonal") {
			return "Diagonal", true
		}
		if loadOfField(v, pkg, "Params", "MaxError") {
			return "MaxError", true
		}
		return "", false
	}
	env := &linEnv{alias: alias}
	n := 0
	for _, b := range fn.Blocks {
		ifi, ok := b.Instrs[len(b.Instrs)-1].(*ssa.If)
		if !ok {
			continue
		}
		bo, ok := ifi.Cond.(*ssa.BinOp)
		if !ok {
			continue
		}
		for edge, succ := range b.Succs {
			// the edge that returns without merging
			if _, isRet := succ.Instrs[len(succ.Instrs)-1].(*ssa.Return); !isRet || len(succ.Instrs) > 2 {
				continue
			}
			f, ok := strictForm(bo, edge, env)
			if !ok {
				continue
			}
			if _, has := f.coef["Diagonal"]; !has {
				continue
			}
			n++
			// Left = -Diagonal; discard when Left <= MaxError: -Diagonal - MaxError - 1 < 0
			want := linAtom("Diagonal").scale(-1).add(linAtom("MaxError"), -1).add(linConst(-1), 1)
			if f.equal(want) {
				c.ok(rule, key, bo.Pos(), "in self-comparison a filter hit is dropped exactly when its left edge -Diagonal lies within MaxError of the main diagonal")
			} else {
				c.bad(rule, key, bo.Pos(), "in self-comparison a filter hit is dropped when "+f.String()+" < 0 instead of "+want.String()+" < 0 (left edge -Diagonal <= MaxError): hits whose tube straddles the main diagonal are kept, and the DP seeded from them follows diagonal 0 and reports the trivial self match (or genuine near-diagonal repeats are dropped)")
			}
		}
	}
	if n == 0 {
		c.und(rule, key, fn.Pos(), "no guard on the hit's diagonal that returns without merging")
	}
}

// ---- paramwire (C15): the DP aligner is configured from the DP parameters ----

func ruleParamWire(c *Ctx, rule string) {
	sp := c.SPkgs[c.pkg("align/pals").PkgPath]
	newAligner := c.fn("align/pals/dp", "NewAligner")
	// parameter name -> the field that must feed it
	want := map[string][2]string{
		"k":         {"Params", "WordSize"}, // filter.Params
		"minLength": {"Params", "MinHitLength"},
		"minId":     {"Params", "MinId"},
	}
	n := 0
	for _, fn := range srcFuncs(sp) {
		for _, b := range fn.Blocks {
			for _, ins := range b.Instrs {
				call, ok := ins.(*ssa.Call)
				if !ok || call.Call.StaticCallee() != newAligner {
					continue
				}
				for i, prm := range newAligner.Params {
					w, ok := want[prm.Name()]
					if !ok || i >= len(call.Call.Args) {
						continue
					}
					n++
					c.Funcs[funcName(fn)] = true
					key := fmt.Sprintf("%s/NewAligner.%s#%d", funcName(fn), prm.Name(), n)
					got := ""
					if u, ok := call.Call.Args[i].(*ssa.UnOp); ok && u.Op == token.MUL {
						if fa, ok := u.X.(*ssa.FieldAddr); ok {
							got = structFieldName(fa.X.Type(), fa.Field)
						}
					}
					switch {
					case got == w[1]:
						c.ok(rule, key, call.Pos(), "the aligner's "+prm.Name()+" is taken from "+w[1])
					case got == "":
						c.und(rule, key, call.Pos(), "the argument for "+prm.Name()+" is not a parameter field")
					default:
						c.bad(rule, key, call.Pos(), "the aligner's "+prm.Name()+" is taken from "+got+" instead of "+w[1]+": the two coincide only while the filter runs with its first-choice parameters; once Optimise falls back to a shorter filter seed, hits are accepted (or rejected) against the wrong threshold")
					}
				}
			}
		}
	}
	if n == 0 {
		c.und(rule, "pals/NewAligner", token.NoPos, "no dp.NewAligner call found")
	}
}

// ---- compmethod (C17): the method form reads the unflagged tables ----

func ruleCompMethod(c *Ctx, rule string) {
	pkg := modPath + "/alphabet"
	fn := c.fn("alphabet", "(*Pairing).Complement")
	c.Funcs[funcName(fn)] = true
	key := funcName(fn) + "/reads-pair-and-ok"
	src := func(v ssa.Value) string {
		for i := 0; i < 6; i++ {
			switch x := v.(type) {
			case *ssa.UnOp:
				if x.Op == token.MUL {
					switch a := x.X.(type) {
					case *ssa.IndexAddr:
						v = a.X
						continue
					case *ssa.FieldAddr:
						if name, ok := fieldOf(a, pkg, "Pairing"); ok {
							return name
						}
						return "?"
					case *ssa.Alloc: // named result
						for _, r := range *a.Referrers() {
							if st, ok := r.(*ssa.Store); ok && st.Addr == ssa.Value(a) {
								v = st.Val
							}
						}
						continue
					}
				}
				return "?"
			case *ssa.BinOp:
				v = x.X
			case *ssa.Convert:
				v = x.X
			case *ssa.Slice:
				v = x.X
			case *ssa.FieldAddr:
				if name, ok := fieldOf(x, pkg, "Pairing"); ok {
					return name
				}
				return "?"
			default:
				return "?"
			}
		}
		return "?"
	}
	rets := returnsOf(fn)
	if len(rets) == 0 || len(rets[0].Results) != 2 {
		c.und(rule, key, fn.Pos(), "unexpected shape of Complement")
		return
	}
	letter, okv := src(rets[0].Results[0]), src(rets[0].Results[1])
	if letter == "pair" && okv == "ok" {
		c.ok(rule, key, fn.Pos(), "the letter comes from the unflagged pair table and validity from the ok table")
	} else {
		c.bad(rule, key, fn.Pos(), "Complement derives its results from "+letter+"/"+okv+" instead of the pair and ok tables: the flagged table marks \"no complement\" with the high bit, which is indistinguishable from a letter >= 0x80, so such letters are not returned unchanged and the method form disagrees with the table form")
	}
}

// ---- indexinit (C17): the index table is filled with -1 on every constructor path ----

func ruleIndexInit(c *Ctx, rule string) {
	pkg := modPath + "/alphabet"
	fn := c.fn("alphabet", "newAlphabet")
	c.Funcs[funcName(fn)] = true
	key := funcName(fn) + "/index-cleared-on-every-path"
	var fills []*ssa.Store
	for _, b := range fn.Blocks {
		for _, ins := range b.Instrs {
			st, ok := ins.(*ssa.Store)
			if !ok {
				continue
			}
			if k, ok := constIntVal(st.Val); !ok || k != -1 {
				continue
			}
			if ia, ok := st.Addr.(*ssa.IndexAddr); ok {
				if name, ok := fieldOf(ia.X, pkg, "alpha"); ok && name == "index" {
					fills = append(fills, st)
				}
			}
		}
	}
	if len(fills) == 0 {
		c.bad(rule, key, fn.Pos(), "the index table is never filled with -1: invalid letters have index 0")
		return
	}
	// some fill loop's head must dominate every successful return
	var heads []*ssa.BasicBlock
	for _, fill := range fills {
		for _, l := range naturalLoops(fn) {
			if l.body[fill.Block()] {
				heads = append(heads, l.head)
			}
		}
	}
	if len(heads) == 0 {
		c.und(rule, key, fills[0].Pos(), "the -1 fill is not in a loop")
		return
	}
	for _, r := range returnsOf(fn) {
		if len(r.Results) > 0 && isNilConst(r.Results[0]) {
			continue // error return
		}
		dominated := false
		for _, h := range heads {
			if h.Dominates(r.Block()) {
				dominated = true
			}
		}
		if !dominated {
			c.bad(rule, key, r.Pos(), "the constructor returns an alphabet at "+c.pos(r.Pos())+" on a path that has not run a loop filling the index table with -1: for that kind of alphabet every invalid letter has index 0, the index of the first letter")
			return
		}
	}
	c.ok(rule, key, fills[0].Pos(), "a loop that fills the index table with -1 dominates every return of an alphabet")
}

// ---- scalepath (C18): quality sequences decode on their own scale ----

func ruleScalePath(c *Ctx, rule string) {
	sp := c.SPkgs[c.pkg("seq/quality").PkgPath]
	want := map[string]string{"Phred": "DecodeToQphred", "Solexa": "DecodeToQsolexa"}
	n := 0
	for _, fn := range srcFuncs(sp) {
		if fn.Name() != "QDecode" && fn.Name() != "QEncode" || fn.Signature.Recv() == nil {
			continue
		}
		typ := ""
		for t := range want {
			if isNamed(fn.Signature.Recv().Type(), sp.Pkg.Path(), t) {
				typ = t
			}
		}
		if typ == "" {
			continue
		}
		n++
		c.Funcs[funcName(fn)] = true
		key := funcName(fn) + "/own-scale"
		conv, dec := "", ""
		for _, b := range fn.Blocks {
			for _, ins := range b.Instrs {
				call, ok := ins.(*ssa.Call)
				if !ok {
					continue
				}
				sf := call.Call.StaticCallee()
				if sf == nil || sf.Signature.Recv() == nil {
					continue
				}
				switch sf.Name() {
				case "Qsolexa", "Qphred":
					if isNamed(sf.Signature.Recv().Type(), modPath+"/alphabet", "Qphred") || isNamed(sf.Signature.Recv().Type(), modPath+"/alphabet", "Qsolexa") {
						conv = sf.Name()
					}
				case "DecodeToQphred", "DecodeToQsolexa":
					dec = sf.Name()
				}
			}
		}
		switch {
		case conv != "":
			c.bad(rule, key, fn.Pos(), "the score passes through the lossy scale conversion ."+conv+"() between the byte and the "+typ+" score: decode(encode(q)) is then the identity only where the two conversion tables are mutually inverse (from Q=10 upwards), lower scores come back changed")
		case fn.Name() == "QDecode" && dec != want[typ]:
			c.bad(rule, key, fn.Pos(), "a "+typ+" quality sequence decodes with "+dec+" instead of "+want[typ])
		default:
			c.ok(rule, key, fn.Pos(), "bytes and scores are converted on the sequence's own scale, with no scale conversion in between")
		}
	}
	if n == 0 {
		c.und(rule, "quality/QDecode", token.NoPos, "no QEncode/QDecode methods found")
	}
}

// ---- addbeforego (C19): the WaitGroup counts a worker before the worker can finish ----

// ruleAddBeforeGo: for every go statement in package concurrent whose
// goroutine (transitively, including deferred functions) calls Done on a
// WaitGroup, an Add on a WaitGroup dominates the go statement and lies in the
// same loop iteration. An Add placed after the spawning loop lets an early
// worker's Done drive the counter negative (panic) or the waiter pass early.
func ruleAddBeforeGo(c *Ctx, rule string) {
	sp := c.SPkgs[c.pkg("concurrent").PkgPath]
	isWG := func(cc *ssa.CallCommon, name string) bool {
		return methodIs(cc, "sync", "WaitGroup", name)
	}
	var callsDone func(f *ssa.Function, seen map[*ssa.Function]bool) bool
	callsDone = func(f *ssa.Function, seen map[*ssa.Function]bool) bool {
		if f == nil || seen[f] {
			return false
		}
		seen[f] = true
		for _, b := range f.Blocks {
			for _, ins := range b.Instrs {
				if ci, ok := ins.(ssa.CallInstruction); ok {
					if isWG(ci.Common(), "Done") {
						return true
					}
					// a private function of the package that the goroutine calls or defers (defer p.exit())
					if _, isGo := ins.(*ssa.Go); !isGo {
						if sc := ci.Common().StaticCallee(); sc != nil && sc.Pkg == sp && sc.Object() != nil && !sc.Object().Exported() && callsDone(sc, seen) {
							return true
						}
					}
					if mc, ok := ci.Common().Value.(*ssa.MakeClosure); ok {
						if g, ok := mc.Fn.(*ssa.Function); ok && callsDone(g, seen) {
							return true
						}
					}
				}
			}
		}
		for _, a := range f.AnonFuncs {
			// nested literals that are deferred or called here, not goroutines of their own
			spawned := false
			for _, b := range f.Blocks {
				for _, ins := range b.Instrs {
					if g, ok := ins.(*ssa.Go); ok {
						if mc, ok := g.Call.Value.(*ssa.MakeClosure); ok && mc.Fn == ssa.Value(a) {
							spawned = true
						}
					}
				}
			}
			if !spawned && callsDone(a, seen) {
				return true
			}
		}
		return false
	}
	n := 0
	for _, fn := range srcFuncs(sp) {
		loops := naturalLoops(fn)
		for _, b := range fn.Blocks {
			for _, ins := range b.Instrs {
				g, ok := ins.(*ssa.Go)
				if !ok {
					continue
				}
				var target *ssa.Function
				if mc, ok := g.Call.Value.(*ssa.MakeClosure); ok {
					target, _ = mc.Fn.(*ssa.Function)
				} else {
					target = g.Call.StaticCallee()
				}
				if target == nil || !callsDone(target, map[*ssa.Function]bool{}) {
					continue
				}
				n++
				c.Funcs[funcName(fn)] = true
				key := fmt.Sprintf("%s/go#%d-counted-before-start", funcName(fn), n)
				// the innermost loop around the go statement
				var inner *ssaLoop
				for _, l := range loops {
					if l.body[b] && (inner == nil || len(l.body) < len(inner.body)) {
						inner = l
					}
				}
				okAdd := false
				for _, ab := range fn.Blocks {
					for _, ai := range ab.Instrs {
						call, ok := ai.(*ssa.Call)
						if !ok || !isWG(&call.Call, "Add") {
							continue
						}
						dom := ab.Dominates(b) && (ab != b || instrIndex(ab, call) < instrIndex(b, g))
						if !dom {
							continue
						}
						if inner != nil && !inner.body[ab] {
							// an Add outside the loop must count all iterations: accept only a non-constant amount
							if _, isK := constIntVal(call.Call.Args[len(call.Call.Args)-1]); isK {
								continue
							}
						}
						okAdd = true
					}
				}
				if okAdd {
					c.ok(rule, key, g.Pos(), "a WaitGroup.Add dominates the go statement, so the worker is counted before it can call Done")
				} else {
					c.bad(rule, key, g.Pos(), "no WaitGroup.Add dominates this go statement (it comes after the workers have been started): a worker that finishes at once calls Done before the counter was raised — the counter goes negative (panic) or Wait returns while workers are still running and the result channel is closed under them")
				}
			}
		}
	}
	if n == 0 {
		c.und(rule, "concurrent/go-with-Done", token.NoPos, "no goroutine that calls WaitGroup.Done found")
	}
}

// ---- zerostart (C20): an exon set is accepted only if it starts exactly at zero ----

func ruleZeroStart(c *Ctx, rule string) {
	fn := c.fn("feat/gene", "buildExonsFor")
	c.Funcs[funcName(fn)] = true
	key := funcName(fn) + "/zero-start-test"
	n := 0
	for _, b := range fn.Blocks {
		ifi, ok := b.Instrs[len(b.Instrs)-1].(*ssa.If)
		if !ok {
			continue
		}
		bo, ok := ifi.Cond.(*ssa.BinOp)
		if !ok {
			continue
		}
		z, isZ := constIntVal(bo.Y)
		call, isCall := bo.X.(*ssa.Call)
		if !isZ || z != 0 || !isCall {
			continue
		}
		if sf := call.Call.StaticCallee(); sf == nil || sf.Name() != "Start" {
			continue
		}
		for edge, succ := range b.Succs {
			if !rejectsFrom(b, succ) {
				continue
			}
			n++
			op := bo.Op
			if edge == 1 {
				op = negateOp(op)
			}
			if op == token.NEQ {
				c.ok(rule, key, bo.Pos(), "an exon set is rejected exactly when its start differs from 0")
			} else {
				c.bad(rule, key, bo.Pos(), "an exon set is rejected when its start "+op.String()+" 0 rather than != 0: a set whose first exon starts on the other side of zero is accepted, so exons and introns do not tile the transcript from 0 and the previous exon set is replaced")
			}
		}
	}
	if n == 0 {
		c.bad(rule, key, fn.Pos(), "no test of the exon set's start against 0 leads to a rejection")
	}
}

// ---- querypure (C20): region queries do not cache what exported fields determine ----

func ruleQueryPure(c *Ctx, rule string) {
	sp := c.SPkgs[c.pkg("feat/gene").PkgPath]
	queries := map[string]bool{"UTR5": true, "UTR3": true, "CDS": true, "Exons": true, "Introns": true, "Orientation": true, "Start": true, "End": true, "Len": true}
	n := 0
	for _, fn := range srcFuncs(sp) {
		if fn.Parent() != nil || fn.Signature.Recv() == nil || !queries[fn.Name()] {
			continue
		}
		if !isNamed(fn.Signature.Recv().Type(), sp.Pkg.Path(), "CodingTranscript") && !isNamed(fn.Signature.Recv().Type(), sp.Pkg.Path(), "NonCodingTranscript") && !isNamed(fn.Signature.Recv().Type(), sp.Pkg.Path(), "Gene") {
			continue
		}
		if _, isPtr := fn.Signature.Recv().Type().(*types.Pointer); !isPtr {
			continue
		}
		n++
		c.Funcs[funcName(fn)] = true
		key := funcName(fn) + "/no-receiver-state-written"
		// stores to receiver fields in fn or its same-package callees on the receiver
		var bad *ssa.Store
		seen := map[*ssa.Function]bool{}
		var scan func(f *ssa.Function, recv ssa.Value)
		scan = func(f *ssa.Function, recv ssa.Value) {
			if seen[f] || bad != nil {
				return
			}
			seen[f] = true
			for _, b := range f.Blocks {
				for _, ins := range b.Instrs {
					switch x := ins.(type) {
					case *ssa.Store:
						if fa, ok := x.Addr.(*ssa.FieldAddr); ok && fa.X == recv {
							bad = x
						}
					case *ssa.Call:
						g := x.Call.StaticCallee()
						if g != nil && g.Pkg == sp && g.Signature.Recv() != nil && len(x.Call.Args) > 0 && x.Call.Args[0] == recv && len(g.Params) > 0 {
							scan(g, g.Params[0])
						}
					}
				}
			}
		}
		scan(fn, fn.Params[0])
		if bad != nil {
			fa := bad.Addr.(*ssa.FieldAddr)
			c.bad(rule, key, bad.Pos(), "a query method stores into the receiver's field "+structFieldName(fa.X.Type(), fa.Field)+": the value it keeps is derived from exported, freely assignable state (orientation and location of the transcript and its parents), and nothing invalidates it when that state changes, so later queries answer for the old orientation")
		} else {
			c.ok(rule, key, fn.Pos(), "the query computes its answer from the current fields and writes none")
		}
	}
	if n == 0 {
		c.und(rule, "gene/queries", token.NoPos, "no query methods found")
	}
}

// addrWritten: something is stored through the element address (directly or
// into a sub-element of it).
func addrWritten(ia *ssa.IndexAddr) bool {
	for _, r := range *ia.Referrers() {
		switch r := r.(type) {
		case *ssa.Store:
			if r.Addr == ssa.Value(ia) {
				return true
			}
		case *ssa.IndexAddr:
			for _, rr := range *r.Referrers() {
				if st, ok := rr.(*ssa.Store); ok && st.Addr == ssa.Value(r) {
					return true
				}
			}
		}
	}
	return false
}

// ---- trimwindow (C06): Trim commits the start of a window together with its end ----

// ruleTrimWindow: Trim scans once, keeping the running sum of (limit - error)
// since the last reset and the best sum so far (Kadane). The window it
// returns is described by two results. They describe one window only if the
// returned start is committed where the returned end is — on the edge where
// a new maximum is recorded — and not where the running sum is reset (a reset
// after the best window would move start past end). Before any reset the
// window starts at the sequence's own Start().
func ruleTrimWindow(c *Ctx, rule string) {
	fn := c.fn("seq/sequtils", "Trim")
	c.Funcs[funcName(fn)] = true
	rets := returnsOf(fn)
	if len(rets) != 1 || len(rets[0].Results) != 2 {
		c.und(rule, "sequtils.Trim/window", fn.Pos(), "Trim does not have a single return of two results")
		return
	}
	// the header phis of the two results
	hdr := func(v ssa.Value) *ssa.Phi {
		p, _ := v.(*ssa.Phi)
		return p
	}
	S, E := hdr(rets[0].Results[0]), hdr(rets[0].Results[1])
	if S == nil || E == nil {
		c.und(rule, "sequtils.Trim/window", fn.Pos(), "the results are not loop-carried values")
		return
	}
	var loop *ssaLoop
	for _, l := range naturalLoops(fn) {
		if l.head == S.Block() {
			loop = l
		}
	}
	if loop == nil || E.Block() != S.Block() {
		c.und(rule, "sequtils.Trim/window", fn.Pos(), "the results are not carried by the same loop")
		return
	}
	// (1) initial value of start
	key1 := "sequtils.Trim/start-initialised-from-Start()"
	var init ssa.Value
	for i, pred := range S.Block().Preds {
		if !loop.body[pred] {
			init = S.Edges[i]
		}
	}
	isStartCall := func(v ssa.Value) bool {
		call, ok := v.(*ssa.Call)
		return ok && call.Call.IsInvoke() && call.Call.Method.Name() == "Start" && call.Call.Value == ssa.Value(fn.Params[0])
	}
	if init != nil && isStartCall(init) {
		c.ok(rule, key1, S.Pos(), "before any reset the window starts at q.Start()")
	} else {
		c.bad(rule, key1, S.Pos(), "the returned start is not initialised from q.Start(): for a sequence that does not begin at 0 a window that is never reset is reported as starting at 0, outside the sequence")
	}
	// (2) where the loop gives start and end new values
	commit := func(h *ssa.Phi) (*ssa.BasicBlock, bool) {
		for i, pred := range h.Block().Preds {
			if !loop.body[pred] {
				continue
			}
			// the value arriving over the back edge: a phi at the join that chose between old and new
			j, ok := h.Edges[i].(*ssa.Phi)
			if !ok {
				return nil, false
			}
			return j.Block(), true
		}
		return nil, false
	}
	// (1b) the candidate that is committed into start also begins at q.Start()
	for i, pred := range S.Block().Preds {
		if !loop.body[pred] {
			continue
		}
		if j, ok := S.Edges[i].(*ssa.Phi); ok {
			for _, e := range j.Edges {
				if e == ssa.Value(S) {
					continue
				}
				// e is the committed candidate: follow it to its header phi
				cand := e
				for d := 0; d < 4; d++ {
					if cp, ok := cand.(*ssa.Phi); ok && cp.Block() != S.Block() {
						for _, ce := range cp.Edges {
							if hp, ok := ce.(*ssa.Phi); ok && hp.Block() == S.Block() {
								cand = hp
							}
						}
						continue
					}
					break
				}
				if hp, ok := cand.(*ssa.Phi); ok && hp.Block() == S.Block() && hp != S {
					key1b := "sequtils.Trim/candidate-initialised-from-Start()"
					var cinit ssa.Value
					for k, pr := range hp.Block().Preds {
						if !loop.body[pr] {
							cinit = hp.Edges[k]
						}
					}
					if cinit != nil && isStartCall(cinit) {
						c.ok(rule, key1b, hp.Pos(), "the start of the window being accumulated begins at q.Start()")
					} else {
						c.bad(rule, key1b, hp.Pos(), "the start of the window being accumulated is not initialised from q.Start(): for a sequence that does not begin at 0, a best window found before the first reset is reported as starting at 0 — outside the sequence, or without its leading bases")
					}
				}
			}
		}
	}
	key2 := "sequtils.Trim/start-committed-with-end"
	bs, ok1 := commit(S)
	be, ok2 := commit(E)
	switch {
	case !ok1 || !ok2:
		c.und(rule, key2, fn.Pos(), "the updates of the results inside the loop were not recognised")
	case bs == be:
		c.ok(rule, key2, S.Pos(), "the returned start and end take new values at the same join: the start of a window is committed when its end is")
	default:
		c.bad(rule, key2, S.Pos(), "the returned start takes its new value where the running sum is reset, the returned end where a new maximum is recorded: a reset that follows the best window moves start past end (the results no longer describe the maximal window, or any window)")
	}
}

// ---- reflectnew (C07): a new row is not made by reflect.New on a pointer type ----

// ruleReflectNew: reflect.New(reflect.TypeOf(v)) for an interface value v
// whose dynamic type is a pointer *T yields a **T, which has no methods;
// asserting its Interface() to an interface with methods panics. Every
// sequence type of the module implements its interfaces on the pointer, so
// such a construction can never produce a usable row.
func ruleReflectNew(c *Ctx, rule string, shorts ...string) {
	n := 0
	for _, short := range shorts {
		sp := c.SPkgs[c.pkg(short).PkgPath]
		for _, fn := range srcFuncs(sp) {
			for _, b := range fn.Blocks {
				for _, ins := range b.Instrs {
					call, ok := ins.(*ssa.Call)
					if !ok || !calleeIs(&call.Call, "reflect", "New") {
						continue
					}
					n++
					c.Funcs[funcName(fn)] = true
					key := fmt.Sprintf("%s/reflect.New#%d", funcName(fn), n)
					arg := call.Call.Args[0]
					tcall, ok := arg.(*ssa.Call)
					if !ok || !calleeIs(&tcall.Call, "reflect", "TypeOf") {
						c.ok(rule, key, call.Pos(), "the type given to reflect.New is not the dynamic type of an interface value taken as is")
						continue
					}
					src := tcall.Call.Args[0]
					if mi, ok := src.(*ssa.MakeInterface); ok {
						src = mi.X
					}
					if ci, ok := src.(*ssa.ChangeInterface); ok {
						src = ci.X
					}
					iface, isIface := src.Type().Underlying().(*types.Interface)
					if !isIface {
						c.ok(rule, key, call.Pos(), "reflect.TypeOf is applied to a concrete value")
						continue
					}
					// a module type that implements the interface only through its pointer
					ptrImpl := ""
					for _, p := range c.Prog.AllPackages() {
						if !inModulePkg(p) {
							continue
						}
						for _, m := range p.Members {
							t, ok := m.(*ssa.Type)
							if !ok {
								continue
							}
							if _, isI := t.Type().Underlying().(*types.Interface); isI {
								continue
							}
							if types.Implements(types.NewPointer(t.Type()), iface) && !types.Implements(t.Type(), iface) && iface.NumMethods() > 0 {
								ptrImpl = t.Type().String()
							}
						}
					}
					if ptrImpl != "" {
						c.bad(rule, key, call.Pos(), "reflect.New is given reflect.TypeOf of an interface value whose implementations are pointers (e.g. *"+ptrImpl+"): the result is a pointer to a pointer, which has no methods, so asserting it to the row interface panics — the operation fails for every alignment; use the element type or the row's own Clone/New")
					} else {
						c.ok(rule, key, call.Pos(), "no pointer-receiver implementation of the interface exists in the module")
					}
				}
			}
		}
	}
	if n == 0 {
		c.triv(rule, "reflect.New", token.NoPos, "rows are never created through reflect.New")
	}
}

// ---- nonneglen (C06): lengths handed to Make are non-negative for every feature ----

// nonNegValue: v is structurally non-negative (a constant >= 0, a length, a
// max with a non-negative argument, a sum of such, a loop-carried sum
// starting at one, or a value clamped at zero).
func nonNegValue(v ssa.Value, seen map[ssa.Value]bool, depth int) bool {
	if depth > 8 {
		return false
	}
	if k, ok := constIntVal(v); ok {
		return k >= 0
	}
	if seen[v] {
		return true // loop-carried: judged by its other edges
	}
	seen[v] = true
	defer delete(seen, v)
	switch x := v.(type) {
	case *ssa.Call:
		if b, ok := x.Call.Value.(*ssa.Builtin); ok && (b.Name() == "len" || b.Name() == "cap") {
			return true
		}
		if sf := x.Call.StaticCallee(); sf != nil && sf.Name() == "max" && len(x.Call.Args) == 2 {
			return nonNegValue(x.Call.Args[0], seen, depth+1) || nonNegValue(x.Call.Args[1], seen, depth+1)
		}
		if x.Call.IsInvoke() && x.Call.Method.Name() == "Len" {
			return true
		}
	case *ssa.BinOp:
		if x.Op == token.ADD {
			return nonNegValue(x.X, seen, depth+1) && nonNegValue(x.Y, seen, depth+1)
		}
	case *ssa.Phi:
		for i, e := range x.Edges {
			if nonNegValue(e, seen, depth+1) {
				continue
			}
			// the edge may carry e only where e >= 0 was established
			okEdge := false
			if i < len(x.Block().Preds) {
				for _, bf := range factsOnEdge(x.Block().Preds[i], x.Block()) {
					if bf.cond.X == e {
						if k, ok := constIntVal(bf.cond.Y); ok {
							op := effectiveOp(bf, true)
							if (op == token.GEQ && k >= 0) || (op == token.GTR && k >= -1) {
								okEdge = true
							}
						}
					}
				}
			}
			if !okEdge {
				return false
			}
		}
		return true
	}
	return false
}

func ruleNonNegLen(c *Ctx, rule string, names ...string) {
	for _, name := range names {
		fn := c.fn("seq/sequtils", name)
		c.Funcs[funcName(fn)] = true
		src := fn.Params[1].Name()
		lenAtom := src + ".Slice().Len()"
		lenRepl := linAtom(src+".End()").add(linAtom(src+".Start()"), -1)
		norm := func(l lin) lin { return l.subst(lenAtom, lenRepl) }
		n := 0
		for _, b := range fn.Blocks {
			for _, ins := range b.Instrs {
				call, ok := ins.(*ssa.Call)
				if !ok || !call.Call.IsInvoke() || call.Call.Method.Name() != "Make" || len(call.Call.Args) != 2 {
					continue
				}
				for ai, a := range call.Call.Args {
					n++
					key := fmt.Sprintf("sequtils.%s/Make#%d", name, n)
					what := []string{"length", "capacity"}[ai]
					if nonNegValue(a, map[ssa.Value]bool{}, 0) {
						c.ok(rule, key, call.Pos(), "the "+what+" is non-negative by construction (a constant, a length, a max with zero, or a sum of such)")
						continue
					}
					// from dominating comparisons (difference constraints)
					var facts []lin
					for _, bf := range branchesAt(b) {
						if f, ok := strictForm(bf.cond, bf.edge, nil); ok {
							facts = append(facts, norm(f))
						}
					}
					// a direct guard on the value itself
					guarded := false
					for _, bf := range branchesAt(b) {
						if bf.cond.X == a {
							if k, ok := constIntVal(bf.cond.Y); ok {
								op := effectiveOp(bf, true)
								if (op == token.GEQ && k >= 0) || (op == token.GTR && k >= -1) {
									guarded = true
								}
							}
						}
					}
					if guarded || provable(norm(linOf(a, nil)).scale(-1), facts) {
						c.ok(rule, key, call.Pos(), "the "+what+" "+norm(linOf(a, nil)).String()+" >= 0 follows from the dominating range checks")
					} else {
						c.bad(rule, key, call.Pos(), "nothing establishes that the "+what+" "+symName(a, nil)+" is non-negative: for a feature that lies outside the sequence (it clips to nothing) the clipped extent is negative and Make panics instead of contributing an empty segment")
					}
				}
			}
		}
		if n == 0 {
			c.und(rule, "sequtils."+name+"/Make", fn.Pos(), "no Make call found")
		}
	}
}

// ---- intervalcoherent (C02, C05–C07, C16, C20): End() == Start() + Len() for every type ----

// ruleIntervalCoherent: every type that has Start(), End() and Len() methods
// describes the half-open interval [Start, End) of Len positions. Where the
// three bodies are straight-line code, their symbolic linear forms (fields
// and lengths as atoms, same-type helper methods inlined) must satisfy
// End - Start - Len == 0. A type whose accessors disagree breaks every
// property stated in terms of positions.
func ruleIntervalCoherent(c *Ctx, rule string, shorts ...string) {
	n := 0
	for _, short := range shorts {
		sp := c.SPkgs[c.pkg(short).PkgPath]
		var names []string
		for name := range sp.Members {
			names = append(names, name)
		}
		sort.Strings(names)
		for _, name := range names {
			t, ok := sp.Members[name].(*ssa.Type)
			if !ok {
				continue
			}
			if _, isI := t.Type().Underlying().(*types.Interface); isI {
				continue
			}
			get := func(m string) *ssa.Function {
				for _, typ := range []types.Type{t.Type(), types.NewPointer(t.Type())} {
					ms := c.Prog.MethodSets.MethodSet(typ)
					for i := 0; i < ms.Len(); i++ {
						if ms.At(i).Obj().Name() == m {
							f := c.Prog.MethodValue(ms.At(i))
							if f != nil && f.Synthetic == "" && f.Pkg == sp {
								return f
							}
						}
					}
				}
				return nil
			}
			fs, fe, fl := get("Start"), get("End"), get("Len")
			if fs == nil || fe == nil || fl == nil {
				continue
			}
			form := func(f *ssa.Function) (lin, bool) {
				if len(f.Blocks) != 1 || len(f.Params) != 1 {
					return lin{}, false
				}
				ret, ok := f.Blocks[0].Instrs[len(f.Blocks[0].Instrs)-1].(*ssa.Return)
				if !ok || len(ret.Results) != 1 || !isIntegral(ret.Results[0].Type()) {
					return lin{}, false
				}
				env := &linEnv{forms: map[*ssa.Parameter]lin{}, names: map[*ssa.Parameter]string{f.Params[0]: "recv"}, allocAsName: true}
				l := linOf(ret.Results[0], env)
				// a value receiver is spilled to a local named after it
				out := newLin()
				out.k = l.k
				for a, cf := range l.coef {
					a = strings.Replace(a, f.Params[0].Name()+".", "recv.", -1)
					a = strings.Replace(a, "("+f.Params[0].Name()+")", "(recv)", -1)
					a = strings.Replace(a, "(*"+f.Params[0].Name()+")", "(recv)", -1)
					a = strings.Replace(a, "*recv", "recv", -1)
					a = strings.Replace(a, "(recv.", "(recv.", -1)
					out.coef[a] += cf
				}
				return out, true
			}
			ls, ok1 := form(fs)
			le, ok2 := form(fe)
			ll, ok3 := form(fl)
			if !ok1 || !ok2 || !ok3 {
				continue
			}
			n++
			key := shortPkg(sp.Pkg.Path()) + "." + name + "/End==Start+Len"
			c.Funcs[funcName(fe)] = true
			d := le.add(ls, -1).add(ll, -1)
			if d.isConst() && d.k == 0 {
				c.ok(rule, key, fe.Pos(), "End() = "+le.String()+", Start() = "+ls.String()+", Len() = "+ll.String())
			} else {
				c.bad(rule, key, fe.Pos(), "End() - Start() - Len() = "+d.String()+" (End() = "+le.String()+", Start() = "+ls.String()+", Len() = "+ll.String()+"): the type does not describe the half-open interval [Start, End) of Len positions, so positions, lengths and clipping computed from different accessors disagree")
			}
		}
	}
	if n == 0 {
		c.und(rule, "intervalcoherent", token.NoPos, "no type with straight-line Start/End/Len methods found")
	}
}
