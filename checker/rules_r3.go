// Rules added after the third round of seeded changes (DESIGN §10.2).
package main

import (
	"fmt"
	"go/ast"
	"go/constant"
	"go/token"
	"go/types"
	"sort"
	"strings"

	"golang.org/x/tools/go/packages"
	"golang.org/x/tools/go/ssa"
)

func numberedKey(keyN map[string]int, k string) string {
	keyN[k]++
	if keyN[k] > 1 {
		return fmt.Sprintf("%s#%d", k, keyN[k])
	}
	return k
}

// ---- bareplus (C01): the bare "+" separator bypasses the label comparison ----

// ruleBarePlus: the FASTQ writer emits the separator line either as "+" or
// as "+<id>"; wherever the reader compares the text after '+' with the
// record's label, the comparison may only be reached when the line is longer
// than one byte. Otherwise the bare form is compared ("" against the label)
// and rejected or mis-classified.
func ruleBarePlus(c *Ctx, rule string) {
	read := c.fn("io/seqio/fastq", "(*Reader).Read")
	keyN := map[string]int{}
	// Read and the private helpers it calls (plusMatches(label, line))
	var blocks []*ssa.BasicBlock
	for _, g := range privateReach(read) {
		blocks = append(blocks, g.Blocks...)
	}
	for _, b := range blocks {
		fn := b.Parent()
		for _, ins := range b.Instrs {
			call, ok := ins.(*ssa.Call)
			if !ok {
				continue
			}
			if !(calleeIs(&call.Call, "bytes", "Compare") || calleeIs(&call.Call, "bytes", "Equal")) {
				continue
			}
			var bases []ssa.Value
			for _, a := range call.Call.Args {
				if sl, ok := a.(*ssa.Slice); ok {
					if k, ok := constIntVal(sl.Low); ok && k == 1 && sl.High == nil {
						bases = append(bases, sl.X)
					}
				}
			}
			if len(bases) != 2 {
				continue
			}
			c.Funcs[funcName(fn)] = true
			key := numberedKey(keyN, funcName(fn)+"/label-comparison")
			okBase := ""
			for _, base := range bases {
				if excluded(factsAt(b, lenOf(base)), 1) {
					okBase = symName(base, nil)
				}
			}
			if okBase != "" {
				c.ok(rule, key, call.Pos(), "the comparison of the text after '+' with the label is reached only when the line is not the bare one-byte \"+\"")
			} else {
				c.bad(rule, key, call.Pos(), "the text after '+' is compared with the label even when the line is the bare \"+\" the writer emits when the identifier is not repeated: \"\" differs from every non-empty label, so the separator is not recognised on this path")
			}
		}
	}
}

// ---- splitsep (C02): readers split columns on the byte the writers join with ----

// producersOf traces a value to the calls that produced it, through phis,
// slices and the returns of module helpers.
func producersOf(c *Ctx, v ssa.Value, seen map[ssa.Value]bool, depth int) []*ssa.Call {
	if seen[v] || depth > 6 {
		return nil
	}
	seen[v] = true
	switch x := v.(type) {
	case *ssa.Phi:
		var out []*ssa.Call
		for _, e := range x.Edges {
			out = append(out, producersOf(c, e, seen, depth)...)
		}
		return out
	case *ssa.Slice:
		return producersOf(c, x.X, seen, depth)
	case *ssa.ChangeType:
		return producersOf(c, x.X, seen, depth)
	case *ssa.Extract:
		// one result of a module function: follow that result of its returns
		if call, ok := x.Tuple.(*ssa.Call); ok {
			if f := call.Call.StaticCallee(); f != nil && inModule(f) && f.Blocks != nil {
				var out []*ssa.Call
				for _, b := range f.Blocks {
					if ret, ok := b.Instrs[len(b.Instrs)-1].(*ssa.Return); ok && x.Index < len(ret.Results) {
						out = append(out, producersOf(c, ret.Results[x.Index], seen, depth+1)...)
					}
				}
				return out
			}
		}
		return producersOf(c, x.Tuple, seen, depth)
	case *ssa.Call:
		f := x.Call.StaticCallee()
		if f != nil && inModule(f) && f.Blocks != nil {
			var out []*ssa.Call
			for _, b := range f.Blocks {
				if ret, ok := b.Instrs[len(b.Instrs)-1].(*ssa.Return); ok {
					for _, r := range ret.Results {
						if types.Identical(r.Type(), v.Type()) {
							out = append(out, producersOf(c, r, seen, depth+1)...)
						}
					}
				}
			}
			return out
		}
		return []*ssa.Call{x}
	}
	return nil
}

func isByteVector(t types.Type) bool {
	s, ok := t.Underlying().(*types.Slice)
	if !ok {
		return false
	}
	e, ok := s.Elem().Underlying().(*types.Slice)
	if !ok {
		return false
	}
	b, ok := e.Elem().Underlying().(*types.Basic)
	return ok && b.Kind() == types.Uint8
}

// ruleAttrSplit: the GFF writer joins attributes with ';' and the property
// admits any ';'-free value; the reader's attribute list must therefore come
// from bytes.Split on ";" — or from a splitter that looks at no byte other
// than the separator (a quote-aware splitter reads values containing an odd
// number of '"' differently from how they were written).
func ruleAttrSplit(c *Ctx, rule string) {
	fn := c.fn("io/featio/gff", "mustAtoa")
	c.Funcs[funcName(fn)] = true
	key := funcName(fn) + "/attribute-split"
	// the ranged vector of attributes: a [][]byte produced in this function
	var vec ssa.Value
	for _, b := range fn.Blocks {
		for _, ins := range b.Instrs {
			if call, ok := ins.(*ssa.Call); ok && isByteVector(call.Type()) && vec == nil {
				vec = call
			}
		}
	}
	if vec == nil {
		c.und(rule, key, fn.Pos(), "no attribute vector produced by a call")
		return
	}
	call := vec.(*ssa.Call)
	sf := call.Call.StaticCallee()
	if sf != nil && sf.Pkg != nil && sf.Pkg.Pkg.Path() == "bytes" {
		if (sf.Name() == "Split" || sf.Name() == "SplitN") && string(byteSliceLiteral(call.Call.Args[1])) == ";" {
			c.ok(rule, key, call.Pos(), "attributes are split by bytes."+sf.Name()+" on \";\", the byte the writer joins them with")
		} else {
			c.bad(rule, key, call.Pos(), "attributes are produced by bytes."+sf.Name()+", not a split on exactly \";\"")
		}
		return
	}
	if sf == nil || !inModule(sf) {
		c.und(rule, key, call.Pos(), "the attribute splitter is not a known function")
		return
	}
	// a hand-written splitter: which byte constants does it compare elements with?
	consts := map[int64]bool{}
	for _, b := range sf.Blocks {
		for _, ins := range b.Instrs {
			if bo, ok := ins.(*ssa.BinOp); ok && (bo.Op == token.EQL || bo.Op == token.NEQ) {
				if k, ok := constIntVal(bo.Y); ok {
					if bt, ok := bo.X.Type().Underlying().(*types.Basic); ok && bt.Kind() == types.Uint8 {
						consts[k] = true
					}
				}
			}
		}
	}
	var extra []string
	for k := range consts {
		if k != ';' {
			extra = append(extra, fmt.Sprintf("%q", rune(k)))
		}
	}
	sort.Strings(extra)
	if len(extra) > 0 {
		c.bad(rule, key, call.Pos(), fmt.Sprintf("the attribute splitter %s also reacts to %v, not only to the ';' the writer joins attributes with: a value the writer emitted verbatim (any ';'-free text, e.g. one with an odd number of double quotes) changes where the reader splits, and the following attributes are swallowed into it", funcName(sf), extra))
	} else if consts[';'] {
		c.ok(rule, key, call.Pos(), "the attribute splitter looks at no byte other than ';'")
	} else {
		c.und(rule, key, call.Pos(), "the attribute splitter does not compare with ';'")
	}
}

func ruleSplitSep(c *Ctx, rule string) {
	type target struct {
		short string
		match func(*ssa.Function) bool
	}
	targets := []target{
		{"io/featio/bed", func(f *ssa.Function) bool { return strings.HasPrefix(f.Name(), "parseBed") }},
		{"io/featio/gff", func(f *ssa.Function) bool { return funcName(f) == "gff.(*Reader).Read" }},
	}
	for _, t := range targets {
		sp := c.SPkgs[c.pkg(t.short).PkgPath]
		// BED and GFF are tab-delimited (the property admits any tab-free text in a column)
		const sep = byte('\t')
		for _, f := range srcFuncs(sp) {
			if !t.match(f) {
				continue
			}
			// column vectors: [][]byte values indexed by a constant
			vecs := map[ssa.Value]token.Pos{}
			for _, b := range f.Blocks {
				for _, ins := range b.Instrs {
					if ia, ok := ins.(*ssa.IndexAddr); ok && isByteVector(ia.X.Type()) {
						if _, ok := constIntVal(ia.Index); ok {
							if _, seen := vecs[ia.X]; !seen {
								vecs[ia.X] = ia.Pos()
							}
						}
					}
				}
			}
			if len(vecs) == 0 {
				continue
			}
			c.Funcs[funcName(f)] = true
			// group by producers
			type verdict struct {
				ok   bool
				what string
				pos  token.Pos
			}
			seenProd := map[*ssa.Call]bool{}
			var vs []verdict
			var keys []ssa.Value
			for v := range vecs {
				keys = append(keys, v)
			}
			sort.Slice(keys, func(i, j int) bool { return vecs[keys[i]] < vecs[keys[j]] })
			for _, v := range keys {
				for _, p := range producersOf(c, v, map[ssa.Value]bool{}, 0) {
					if seenProd[p] {
						continue
					}
					seenProd[p] = true
					sf := p.Call.StaticCallee()
					if sf == nil || sf.Pkg == nil {
						continue
					}
					pp, nm := sf.Pkg.Pkg.Path(), sf.Name()
					if pp != "bytes" && pp != "strings" {
						continue
					}
					full := pp + "." + nm
					switch nm {
					case "Split", "SplitN":
						lit := byteSliceLiteral(p.Call.Args[1])
						if len(lit) == 1 && lit[0] == sep {
							vs = append(vs, verdict{true, full + " on " + fmt.Sprintf("%q", lit), p.Pos()})
						} else {
							vs = append(vs, verdict{false, fmt.Sprintf("the columns are split by %s on %q but the writer separates them with %q", full, lit, []byte{sep}), p.Pos()})
						}
					default:
						vs = append(vs, verdict{false, fmt.Sprintf("the columns are produced by %s, which does not split on exactly the writer's separator %q: a text column containing another separator character (a space) is cut into several columns, and empty columns vanish", full, []byte{sep}), p.Pos()})
					}
				}
			}
			key := funcName(f) + "/column-split"
			if len(vs) == 0 {
				c.und(rule, key, f.Pos(), "the producer of the column vector was not found")
				continue
			}
			bad := false
			for _, v := range vs {
				if !v.ok {
					c.bad(rule, key, v.pos, v.what)
					bad = true
					break
				}
			}
			if !bad {
				c.ok(rule, key, vs[0].pos, "mandatory columns are read from "+vs[0].what+", the byte the writer joins columns with")
			}
		}
	}
}

// ---- sentinel (C03): a lookup table's default entry is the value tested as invalid ----

// tableDefault evaluates the entry a [N]T package-level table holds for keys
// that are not set explicitly: the zero value for a keyed literal; the fill
// constant when a func-literal initialiser assigns every element in a
// `for i := range t` loop first.
func tableDefault(c *Ctx, p *packages.Package, init ast.Expr) (constant.Value, map[int64]bool, bool) {
	explicit := map[int64]bool{}
	switch x := unparen(init).(type) {
	case *ast.CompositeLit:
		for _, el := range x.Elts {
			if kv, ok := el.(*ast.KeyValueExpr); ok {
				if k, ok := constInt(p, kv.Key); ok {
					explicit[k] = true
				}
			} else {
				return nil, nil, false
			}
		}
		return constant.MakeInt64(0), explicit, true
	case *ast.CallExpr:
		fl, ok := unparen(x.Fun).(*ast.FuncLit)
		if !ok || len(x.Args) != 0 {
			return nil, nil, false
		}
		var def constant.Value = constant.MakeInt64(0)
		var tbl types.Object
		for _, st := range fl.Body.List {
			switch s := st.(type) {
			case *ast.DeclStmt:
				if gd, ok := s.Decl.(*ast.GenDecl); ok && gd.Tok == token.VAR {
					for _, sp := range gd.Specs {
						vs := sp.(*ast.ValueSpec)
						if len(vs.Names) == 1 && len(vs.Values) == 0 && tbl == nil {
							tbl = p.TypesInfo.Defs[vs.Names[0]]
						}
					}
				}
			case *ast.ForStmt:
				// for i := 0; i < len(t) (or the array length); i++ { t[i] = C }
				as0, ok := s.Init.(*ast.AssignStmt)
				if !ok || len(as0.Lhs) != 1 || len(s.Body.List) != 1 {
					return nil, nil, false
				}
				if k, ok := constInt(p, as0.Rhs[0]); !ok || k != 0 {
					return nil, nil, false
				}
				cond, ok := s.Cond.(*ast.BinaryExpr)
				if !ok || cond.Op != token.LSS {
					return nil, nil, false
				}
				full := false
				if k, ok := constInt(p, cond.Y); ok && tbl != nil {
					if arr, isArr := tbl.Type().Underlying().(*types.Array); isArr && arr.Len() == k {
						full = true
					}
				}
				if !full {
					return nil, nil, false
				}
				as, ok := s.Body.List[0].(*ast.AssignStmt)
				if !ok || len(as.Lhs) != 1 || as.Tok != token.ASSIGN {
					return nil, nil, false
				}
				ix, ok := as.Lhs[0].(*ast.IndexExpr)
				if !ok {
					return nil, nil, false
				}
				bid, ok1 := unparen(ix.X).(*ast.Ident)
				iid, ok2 := unparen(ix.Index).(*ast.Ident)
				kid, ok3 := as0.Lhs[0].(*ast.Ident)
				if !ok1 || !ok2 || !ok3 || p.TypesInfo.ObjectOf(bid) != tbl || p.TypesInfo.ObjectOf(iid) != p.TypesInfo.ObjectOf(kid) {
					return nil, nil, false
				}
				v := constOf(p, as.Rhs[0])
				if v == nil || len(explicit) > 0 {
					return nil, nil, false
				}
				def = v
			case *ast.RangeStmt:
				id, ok := unparen(s.X).(*ast.Ident)
				if !ok || p.TypesInfo.ObjectOf(id) != tbl || len(s.Body.List) != 1 || s.Value != nil {
					return nil, nil, false
				}
				as, ok := s.Body.List[0].(*ast.AssignStmt)
				if !ok || len(as.Lhs) != 1 || as.Tok != token.ASSIGN {
					return nil, nil, false
				}
				ix, ok := as.Lhs[0].(*ast.IndexExpr)
				if !ok {
					return nil, nil, false
				}
				bid, ok1 := unparen(ix.X).(*ast.Ident)
				iid, ok2 := unparen(ix.Index).(*ast.Ident)
				kid, ok3 := s.Key.(*ast.Ident)
				if !ok1 || !ok2 || !ok3 || p.TypesInfo.ObjectOf(bid) != tbl || p.TypesInfo.ObjectOf(iid) != p.TypesInfo.ObjectOf(kid) {
					return nil, nil, false
				}
				v := constOf(p, as.Rhs[0])
				if v == nil {
					return nil, nil, false
				}
				if len(explicit) > 0 {
					return nil, nil, false // a fill after explicit entries would overwrite them
				}
				def = v
			case *ast.AssignStmt:
				if len(s.Lhs) != 1 {
					return nil, nil, false
				}
				ix, ok := s.Lhs[0].(*ast.IndexExpr)
				if !ok {
					return nil, nil, false
				}
				bid, ok := unparen(ix.X).(*ast.Ident)
				if !ok || p.TypesInfo.ObjectOf(bid) != tbl {
					return nil, nil, false
				}
				k, ok := constInt(p, ix.Index)
				if !ok {
					return nil, nil, false
				}
				explicit[k] = true
			case *ast.ReturnStmt:
			default:
				return nil, nil, false
			}
		}
		return def, explicit, true
	}
	return nil, nil, false
}

// ruleSentinel: where a function looks an input byte up in a package-level
// table and treats one constant as "not a valid character", every entry that
// is not set explicitly must hold that constant.
func ruleSentinel(c *Ctx, rule string, shorts ...string) {
	for _, short := range shorts {
		p := c.pkg(short)
		for _, file := range p.Syntax {
			for _, d := range file.Decls {
				fd, ok := d.(*ast.FuncDecl)
				if !ok || fd.Body == nil {
					continue
				}
				// locals assigned from tbl[...]
				fromTable := map[types.Object]types.Object{} // local -> table var
				ast.Inspect(fd.Body, func(n ast.Node) bool {
					as, ok := n.(*ast.AssignStmt)
					if !ok || len(as.Lhs) != 1 || len(as.Rhs) != 1 {
						return true
					}
					ix, ok := unparen(as.Rhs[0]).(*ast.IndexExpr)
					if !ok {
						return true
					}
					tid, ok := unparen(ix.X).(*ast.Ident)
					if !ok {
						return true
					}
					tv, ok := p.TypesInfo.ObjectOf(tid).(*types.Var)
					if !ok || tv.Parent() != p.Types.Scope() {
						return true
					}
					if _, isArr := tv.Type().Underlying().(*types.Array); !isArr {
						return true
					}
					if lid, ok := as.Lhs[0].(*ast.Ident); ok {
						fromTable[p.TypesInfo.ObjectOf(lid)] = tv
					}
					return true
				})
				if len(fromTable) == 0 {
					continue
				}
				ast.Inspect(fd.Body, func(n ast.Node) bool {
					ifs, ok := n.(*ast.IfStmt)
					if !ok {
						return true
					}
					be, ok := unparen(ifs.Cond).(*ast.BinaryExpr)
					if !ok || be.Op != token.EQL {
						return true
					}
					id, ok := unparen(be.X).(*ast.Ident)
					if !ok {
						return true
					}
					tv := fromTable[p.TypesInfo.ObjectOf(id)]
					if tv == nil {
						return true
					}
					k := constOf(p, be.Y)
					if k == nil {
						return true
					}
					// the then-branch must reject (panic or return an error)
					rejects := false
					ast.Inspect(ifs.Body, func(m ast.Node) bool {
						if call, ok := m.(*ast.CallExpr); ok {
							if fid, ok := call.Fun.(*ast.Ident); ok && fid.Name == "panic" {
								rejects = true
							}
						}
						if _, ok := m.(*ast.ReturnStmt); ok {
							rejects = true
						}
						return true
					})
					if !rejects {
						return true
					}
					fname := p.Types.Name() + "." + fd.Name.Name
					c.Funcs[fname] = true
					key := fname + "/" + tv.Name() + "-default"
					init := pkgVarInit(p, tv)
					if init == nil {
						c.und(rule, key, be.Pos(), "no initialiser found for "+tv.Name())
						return true
					}
					def, explicit, ok := tableDefault(c, p, init)
					if !ok {
						c.und(rule, key, init.Pos(), "the initialiser of "+tv.Name()+" is not a keyed literal or a fill-then-set function literal")
						return true
					}
					if constant.Compare(constant.ToInt(def), token.EQL, constant.ToInt(k)) {
						c.ok(rule, key, be.Pos(), fmt.Sprintf("all %s entries other than the %d set explicitly hold %s, the value %s rejects", tv.Name(), len(explicit), k.ExactString(), fd.Name.Name))
					} else {
						c.bad(rule, key, init.Pos(), fmt.Sprintf("%s rejects a byte when %s[b] == %s, but entries that are not set explicitly hold %s: no byte is ever rejected, every unlisted character is accepted as a valid value", fd.Name.Name, tv.Name(), k.ExactString(), def.ExactString()))
					}
					return true
				})
			}
		}
	}
}

// ---- rawline (C04): the assembled line is trimmed before anything looks at it ----

func ruleRawLine(c *Ctx, rule string, shorts ...string) {
	keyN := map[string]int{}
	for _, call := range lineCalls(c, shorts, "ReadLine") {
		f := call.Parent()
		frag := extractOf(call, 0)
		if frag == nil {
			continue
		}
		key := numberedKey(keyN, funcName(f)+"/assembled-line")
		raw := map[ssa.Value]bool{}
		var work []ssa.Value
		for _, r := range *frag.Referrers() {
			if ap, ok := r.(*ssa.Call); ok && builtinCall(ap, "append") != nil && len(ap.Call.Args) == 2 && ap.Call.Args[1] == ssa.Value(frag) {
				raw[ap] = true
				work = append(work, ap)
			}
		}
		if len(work) == 0 {
			c.und(rule, key, call.Pos(), "the fragment is not accumulated by append")
			continue
		}
		var sink ssa.Instruction
		what := ""
		note := func(i ssa.Instruction, w string) {
			if sink == nil || i.Pos() < sink.Pos() {
				sink, what = i, w
			}
		}
		normalised := 0
		for len(work) > 0 {
			v := work[0]
			work = work[1:]
			for _, r := range *v.Referrers() {
				switch r := r.(type) {
				case *ssa.DebugRef:
				case *ssa.Phi:
					if !raw[r] {
						raw[r] = true
						work = append(work, r)
					}
				case *ssa.Slice:
					if k, ok := constIntVal(r.High); ok && k == 0 {
						continue // reset to empty
					}
					if !raw[r] {
						raw[r] = true
						work = append(work, r)
					}
				case *ssa.BinOp:
					// comparison with nil
				case *ssa.Call:
					if b, ok := r.Call.Value.(*ssa.Builtin); ok {
						switch b.Name() {
						case "append":
							if !raw[r] {
								raw[r] = true
								work = append(work, r)
							}
						case "len":
							// an emptiness test (nothing accumulated yet) is not a classification
							onlyZero := true
							for _, lr := range *r.Referrers() {
								bo, ok := lr.(*ssa.BinOp)
								if !ok {
									if _, dbg := lr.(*ssa.DebugRef); !dbg {
										onlyZero = false
									}
									continue
								}
								kx, okx := constIntVal(bo.X)
								ky, oky := constIntVal(bo.Y)
								if !((okx && kx == 0) || (oky && ky == 0)) {
									onlyZero = false
								}
							}
							if !onlyZero {
								note(r, "len() of the untrimmed line")
							}
						default:
							note(r, b.Name()+"() of the untrimmed line")
						}
						continue
					}
					sf := r.Call.StaticCallee()
					if sf != nil && sf.Pkg != nil && (sf.Pkg.Pkg.Path() == "bytes" || sf.Pkg.Pkg.Path() == "strings") {
						switch sf.Name() {
						case "TrimSpace", "Fields":
							normalised++
							continue
						case "TrimRight", "Trim":
							if k, ok := r.Call.Args[1].(*ssa.Const); ok && k.Value != nil && k.Value.Kind() == constant.String {
								cut := constant.StringVal(k.Value)
								if strings.Contains(cut, " ") && strings.Contains(cut, "\t") && strings.Contains(cut, "\r") {
									normalised++
									continue
								}
							}
						}
					}
					name := "a call"
					if sf != nil {
						name = funcName(sf)
					}
					note(r, name)
				case *ssa.IndexAddr, *ssa.Index, *ssa.Range:
					note(r.(ssa.Instruction), "indexing of the untrimmed line")
				case *ssa.Store:
					note(r, "a store of the untrimmed line")
				case *ssa.Return:
					// a private helper that hands the assembled line back: what its callers do with it
					g := r.Parent()
					followed := false
					if g != nil && g.Pkg != nil && !ast.IsExported(g.Name()) {
						for idx, res := range r.Results {
							if res != v {
								continue
							}
							for _, h := range srcFuncs(g.Pkg) {
								for _, hb := range h.Blocks {
									for _, hi := range hb.Instrs {
										hc, ok := hi.(*ssa.Call)
										if !ok || hc.Call.StaticCallee() != g {
											continue
										}
										var got ssa.Value = hc
										if len(r.Results) > 1 {
											ex := extractOf(hc, idx)
											if ex == nil {
												continue
											}
											got = ex
										}
										followed = true
										if !raw[got] {
											raw[got] = true
											work = append(work, got)
										}
									}
								}
							}
						}
					}
					if !followed {
						note(r, "a return of the untrimmed line")
					}
				case *ssa.MakeInterface, *ssa.Convert, *ssa.ChangeType:
					note(r.(ssa.Instruction), "a conversion of the untrimmed line")
				}
			}
		}
		switch {
		case sink != nil:
			spos := sink.Pos()
			if !spos.IsValid() {
				spos = call.Pos()
			}
			c.bad(rule, key, spos, "the line assembled from ReadLine fragments reaches "+what+" before bytes.TrimSpace (or an equivalent trim) has removed trailing blanks: a line that differs only by trailing whitespace (or the CR of a CRLF terminator cut in two by the buffer) is classified or compared differently")
		case normalised == 0:
			c.bad(rule, key, call.Pos(), "the assembled line is never trimmed")
		default:
			c.ok(rule, key, call.Pos(), fmt.Sprintf("the assembled line flows only into the accumulator and %d whitespace-removing call(s) (TrimSpace/Fields); everything else sees the trimmed line", normalised))
		}
	}
}

// ---- convflow (C02): conversions applied between a coordinate read and the text ----

type coordOrigin struct {
	kind  int // 1 start, 2 end
	conv  int // net number of +1 conversions applied
	pos   token.Pos
	fn    *ssa.Function
	what  string
	route string
}

type convFlow struct {
	c           *Ctx
	sp          *ssa.Package
	startFields map[types.Object]bool
	endFields   map[types.Object]bool
	funcs       []*ssa.Function
}

func (cf *convFlow) fieldKind(t types.Type, idx int) int {
	f := structFieldVar(t, idx)
	if f == nil {
		return 0
	}
	if cf.startFields[f] {
		return 1
	}
	if cf.endFields[f] {
		return 2
	}
	return 0
}

func (cf *convFlow) trace(v ssa.Value, conv int, route string, seen map[ssa.Value]bool, depth int) []coordOrigin {
	if depth > 8 || seen[v] {
		return nil
	}
	seen[v] = true
	defer delete(seen, v)
	switch x := v.(type) {
	case *ssa.MakeInterface:
		return cf.trace(x.X, conv, route, seen, depth)
	case *ssa.Convert:
		return cf.trace(x.X, conv, route, seen, depth)
	case *ssa.ChangeType:
		return cf.trace(x.X, conv, route, seen, depth)
	case *ssa.Phi:
		var out []coordOrigin
		for _, e := range x.Edges {
			out = append(out, cf.trace(e, conv, route, seen, depth+1)...)
		}
		return out
	case *ssa.BinOp:
		if x.Op == token.ADD || x.Op == token.SUB {
			if k, ok := constIntVal(x.Y); ok {
				if x.Op == token.SUB {
					k = -k
				}
				return cf.trace(x.X, conv+int(k), route, seen, depth)
			}
			if k, ok := constIntVal(x.X); ok && x.Op == token.ADD {
				return cf.trace(x.Y, conv+int(k), route, seen, depth)
			}
		}
	case *ssa.UnOp:
		if x.Op == token.MUL {
			if fa, ok := x.X.(*ssa.FieldAddr); ok {
				if k := cf.fieldKind(fa.X.Type(), fa.Field); k != 0 {
					return []coordOrigin{{kind: k, conv: conv, pos: x.Pos(), fn: x.Parent(), what: structFieldName(fa.X.Type(), fa.Field), route: route}}
				}
			}
		}
	case *ssa.Field:
		if k := cf.fieldKind(x.X.Type(), x.Field); k != 0 {
			return []coordOrigin{{kind: k, conv: conv, pos: x.Pos(), fn: x.Parent(), what: structFieldName(x.X.Type(), x.Field), route: route}}
		}
	case *ssa.Call:
		cc := &x.Call
		if calleeIs(cc, modPath+"/feat", "ZeroToOne") && len(cc.Args) == 1 {
			return cf.trace(cc.Args[0], conv+1, route, seen, depth)
		}
		if calleeIs(cc, modPath+"/feat", "OneToZero") && len(cc.Args) == 1 {
			return cf.trace(cc.Args[0], conv-1, route, seen, depth)
		}
		name := ""
		nargs := len(cc.Args)
		if cc.IsInvoke() {
			name = cc.Method.Name()
		} else if sf := cc.StaticCallee(); sf != nil && sf.Signature.Recv() != nil {
			name = sf.Name()
			nargs--
		}
		if nargs == 0 && isIntegral(x.Type()) {
			switch name {
			case "Start":
				return []coordOrigin{{kind: 1, conv: conv, pos: x.Pos(), fn: x.Parent(), what: "Start()", route: route}}
			case "End":
				return []coordOrigin{{kind: 2, conv: conv, pos: x.Pos(), fn: x.Parent(), what: "End()", route: route}}
			}
		}
	case *ssa.Parameter:
		fn := x.Parent()
		idx := paramIndex(fn, x)
		var out []coordOrigin
		for _, g := range cf.funcs {
			for _, b := range g.Blocks {
				for _, ins := range b.Instrs {
					ci, ok := ins.(ssa.CallInstruction)
					if !ok || ci.Common().StaticCallee() != fn || idx >= len(ci.Common().Args) {
						continue
					}
					out = append(out, cf.trace(ci.Common().Args[idx], conv, funcName(g)+" -> "+route, seen, depth+1)...)
				}
			}
		}
		return out
	}
	return nil
}

// variadicValues lists the values packed into the variadic slice argument v.
func variadicValues(v ssa.Value) []ssa.Value {
	sl, ok := v.(*ssa.Slice)
	if !ok {
		return nil
	}
	al, ok := sl.X.(*ssa.Alloc)
	if !ok {
		return nil
	}
	type iv struct {
		i int64
		v ssa.Value
	}
	var ivs []iv
	for _, r := range *al.Referrers() {
		ia, ok := r.(*ssa.IndexAddr)
		if !ok {
			continue
		}
		i, _ := constIntVal(ia.Index)
		for _, rr := range *ia.Referrers() {
			if st, ok := rr.(*ssa.Store); ok && st.Addr == ia {
				ivs = append(ivs, iv{i, st.Val})
			}
		}
	}
	sort.Slice(ivs, func(a, b int) bool { return ivs[a].i < ivs[b].i })
	var out []ssa.Value
	for _, x := range ivs {
		out = append(out, x.v)
	}
	return out
}

// ruleConvFlow: every coordinate that reaches the text written by package
// gff has had exactly one 0-based-to-1-based conversion applied if it was
// read from a start (field or Start()), and none if it was read from an end,
// whatever helpers the value passes through on the way.
func ruleConvFlow(c *Ctx, rule string, cp *convpair) {
	sp := c.SPkgs[cp.p.PkgPath]
	cf := &convFlow{c: c, sp: sp, startFields: cp.startFields, endFields: cp.endFields, funcs: srcFuncs(sp)}
	type obl struct {
		o    coordOrigin
		sink token.Pos
	}
	var obls []obl
	seenO := map[string]bool{}
	for _, f := range cf.funcs {
		for _, b := range f.Blocks {
			for _, ins := range b.Instrs {
				call, ok := ins.(*ssa.Call)
				if !ok {
					continue
				}
				sf := call.Call.StaticCallee()
				if sf == nil || sf.Pkg == nil || sf.Pkg.Pkg.Path() != "fmt" || !strings.HasPrefix(sf.Name(), "Fprint") {
					continue
				}
				if len(call.Call.Args) == 0 {
					continue
				}
				for _, a := range variadicValues(call.Call.Args[len(call.Call.Args)-1]) {
					for _, o := range cf.trace(a, 0, funcName(f), map[ssa.Value]bool{}, 0) {
						id := fmt.Sprintf("%d/%d/%d", call.Pos(), o.pos, o.conv)
						if seenO[id] {
							continue
						}
						seenO[id] = true
						obls = append(obls, obl{o, call.Pos()})
					}
				}
			}
		}
	}
	sort.Slice(obls, func(i, j int) bool {
		if obls[i].o.pos != obls[j].o.pos {
			return obls[i].o.pos < obls[j].o.pos
		}
		return obls[i].sink < obls[j].sink
	})
	for _, ob := range obls {
		o := ob.o
		fname := funcName(o.fn)
		c.Funcs[fname] = true
		if o.kind == 1 {
			key := cp.key(fname + "/format-start")
			switch {
			case o.conv == 1:
				c.ok(rule, key, o.pos, "the start read here ("+o.what+") reaches the text through exactly one 0-based to 1-based conversion ("+o.route+")")
			case o.conv == 0:
				c.bad(rule, key, o.pos, "a 0-based start coordinate ("+o.what+") is formatted into GFF text without feat.ZeroToOne ("+o.route+"): written features are shifted by one")
			default:
				c.bad(rule, key, o.pos, fmt.Sprintf("the start read here (%s) is converted %+d on its way to the text (%s): it is written shifted by %d", o.what, o.conv, o.route, o.conv-1))
			}
		} else {
			key := cp.key(fname + "/format-end")
			if o.conv == 0 {
				c.ok(rule, key, o.pos, "the end read here ("+o.what+") is written unconverted ("+o.route+")")
			} else {
				c.bad(rule, key, o.pos, fmt.Sprintf("an end coordinate (%s) is converted %+d when written (%s): a 0-based exclusive end equals the 1-based inclusive end", o.what, o.conv, o.route))
			}
		}
	}
}

// ---- mirror (C05): each row is mirrored about the alignment's own span ----

// ruleMirrorTerms: the offset a row receives in Multi.RevComp/Reverse is
// Start() + End() - row.End() with Start()/End() those of the alignment —
// the only affine expression that reflects the row's interval about the
// span [Start, End). Any other term (the alignment's Offset field, a length)
// agrees with it only for special alignments.
func ruleMirrorTerms(c *Ctx, rule string, names ...string) {
	for _, name := range names {
		fn := c.fn("seq/multi", name)
		type site struct {
			call *ssa.Call
			env  *linEnv
		}
		var sites []site
		collect := func(f *ssa.Function, env *linEnv) {
			for _, b := range f.Blocks {
				for _, ins := range b.Instrs {
					if call, ok := ins.(*ssa.Call); ok && call.Call.IsInvoke() && call.Call.Method.Name() == "SetOffset" && len(call.Call.Args) == 1 {
						sites = append(sites, site{call, env})
					}
				}
			}
		}
		collect(fn, nil)
		// helpers called from fn (one level), evaluated in the caller's terms
		for _, b := range fn.Blocks {
			for _, ins := range b.Instrs {
				call, ok := ins.(*ssa.Call)
				if !ok {
					continue
				}
				g := call.Call.StaticCallee()
				if g == nil || !inModule(g) || g.Blocks == nil || g.Pkg != fn.Pkg || len(g.Params) != len(call.Call.Args) {
					continue
				}
				env := &linEnv{forms: map[*ssa.Parameter]lin{}, names: map[*ssa.Parameter]string{}, depth: 1}
				for i, p := range g.Params {
					if isIntegral(p.Type()) {
						env.forms[p] = linOf(call.Call.Args[i], nil)
					}
					env.names[p] = symName(call.Call.Args[i], nil)
				}
				collect(g, env)
			}
		}
		recv := fn.Params[0].Name()
		n := 0
		for _, s := range sites {
			n++
			key := fmt.Sprintf("%s/mirror-offset#%d", funcName(fn), n)
			c.Funcs[funcName(fn)] = true
			row := symName(s.call.Call.Value, s.env)
			got := linOf(s.call.Call.Args[0], s.env)
			// lengths in terms of ends
			got = got.subst(recv+".Len()", linAtom(recv+".End()").add(linAtom(recv+".Start()"), -1))
			got = got.subst(row+".Len()", linAtom(row+".End()").add(linAtom(row+".Start()"), -1))
			want := linAtom(recv+".Start()").add(linAtom(recv+".End()"), 1).add(linAtom(row+".End()"), -1)
			if got.equal(want) {
				c.ok(rule, key, s.call.Pos(), "the row's new offset is "+want.String()+": its interval reflected about the alignment's span")
			} else {
				c.bad(rule, key, s.call.Pos(), "the row's new offset is "+got.String()+", not "+want.String()+": rows are not mirrored about the alignment's span [Start(), End()) (the two agree only for special alignments), so RevComp/Reverse misplace rows and applying them twice does not restore the coordinates")
			}
		}
		if n == 0 {
			c.und(rule, funcName(fn)+"/mirror-offset", fn.Pos(), "no SetOffset call found")
		}
	}
}

// ---- strandneg (C05): RevComp negates the strand of the sequence itself ----

func addrRoot(v ssa.Value) ssa.Value {
	for {
		switch x := v.(type) {
		case *ssa.FieldAddr:
			v = x.X
		case *ssa.IndexAddr:
			v = x.X
		default:
			return v
		}
	}
}

func ruleStrandNeg(c *Ctx, rule string, targets [][2]string) {
	for _, t := range targets {
		fn := c.fn(t[0], t[1])
		key := funcName(fn) + "/strand-negated"
		c.Funcs[funcName(fn)] = true
		var good, local *ssa.Store
		for _, b := range fn.Blocks {
			for _, ins := range b.Instrs {
				st, ok := ins.(*ssa.Store)
				if !ok {
					continue
				}
				fa, ok := st.Addr.(*ssa.FieldAddr)
				if !ok || structFieldName(fa.X.Type(), fa.Field) != "Strand" {
					continue
				}
				var negated ssa.Value
				switch nv := st.Val.(type) {
				case *ssa.UnOp:
					if nv.Op == token.SUB {
						negated = nv.X
					}
				case *ssa.BinOp:
					if k, ok := constIntVal(nv.Y); ok && k == -1 && nv.Op == token.MUL {
						negated = nv.X
					} else if k, ok := constIntVal(nv.X); ok && ((k == -1 && nv.Op == token.MUL) || (k == 0 && nv.Op == token.SUB)) {
						negated = nv.Y
					}
				}
				ld, ok := negated.(*ssa.UnOp)
				if !ok || ld.Op != token.MUL {
					continue
				}
				if fa2, ok := ld.X.(*ssa.FieldAddr); !ok || structFieldName(fa2.X.Type(), fa2.Field) != "Strand" {
					continue
				}
				if al, isLocal := addrRoot(fa).(*ssa.Alloc); isLocal {
					// a local copy, unless the copy is stored back afterwards
					back := false
					for _, r := range *al.Referrers() {
						if u, ok := r.(*ssa.UnOp); ok && u.Op == token.MUL {
							for _, rr := range *u.Referrers() {
								if s2, ok := rr.(*ssa.Store); ok && s2.Val == ssa.Value(u) && instrAfter(st, s2) {
									back = true
								}
							}
						}
					}
					if !back {
						local = st
						continue
					}
				}
				good = st
			}
		}
		switch {
		case good != nil:
			c.ok(rule, key, good.Pos(), "the Strand field of the sequence's own annotation is replaced by its negation")
		case local != nil:
			c.bad(rule, key, local.Pos(), "the strand is negated on a local copy of the annotation that is never stored back: the sequence keeps its old strand after being reverse-complemented")
		default:
			c.bad(rule, key, fn.Pos(), "no store of a negated Strand: the strand is not negated by RevComp")
		}
	}
}

// ---- slicebounds (C06): Truncate proves its slice bounds before slicing ----

// provable: g <= 0 follows from at most two of the facts (each f < 0).
func provable(g lin, facts []lin) bool {
	if g.isConst() {
		return g.k <= 0
	}
	for i, f := range facts {
		d := g.add(f, -1)
		if d.isConst() && d.k <= 1 {
			return true
		}
		for _, f2 := range facts[i:] {
			d2 := d.add(f2, -1)
			if d2.isConst() && d2.k <= 2 {
				return true
			}
		}
	}
	return false
}

func ruleSliceBounds(c *Ctx, rule string) {
	fn := c.fn("seq/sequtils", "Truncate")
	src := fn.Params[1]
	srcN := src.Name()
	lenAtom := srcN + ".Slice().Len()"
	lenRepl := linAtom(srcN+".End()").add(linAtom(srcN+".Start()"), -1)
	norm := func(l lin) lin { return l.subst(lenAtom, lenRepl) }
	n := 0
	// analyse f (Truncate, or a private helper it hands the work to) with the
	// caller's names for the helper's parameters and the facts that hold at the call
	var analyse func(f *ssa.Function, env *linEnv, inherited []lin, depth int)
	analyse = func(f *ssa.Function, env *linEnv, inherited []lin, depth int) {
		for _, b := range f.Blocks {
			for _, ins := range b.Instrs {
				call, ok := ins.(*ssa.Call)
				if !ok {
					continue
				}
				var facts []lin
				facts = append(facts, inherited...)
				for _, bf := range branchesAt(b) {
					if ff, ok := strictForm(bf.cond, bf.edge, env); ok {
						facts = append(facts, norm(ff))
					}
				}
				if g := call.Call.StaticCallee(); g != nil && g.Pkg == fn.Pkg && g.Blocks != nil && depth < 2 && g.Object() != nil && !g.Object().Exported() && len(g.Params) == len(call.Call.Args) {
					sub := &linEnv{forms: map[*ssa.Parameter]lin{}, names: map[*ssa.Parameter]string{}}
					for i, prm := range g.Params {
						sub.names[prm] = symName(call.Call.Args[i], env)
						if isIntegral(prm.Type()) {
							sub.forms[prm] = linOf(call.Call.Args[i], env)
						}
					}
					analyse(g, sub, facts, depth+1)
					continue
				}
				if !call.Call.IsInvoke() || call.Call.Method.Name() != "Slice" || len(call.Call.Args) != 2 {
					continue
				}
				if symName(call.Call.Value, env) != srcN+".Slice()" {
					continue
				}
				n++
				c.Funcs[funcName(f)] = true
				key := fmt.Sprintf("sequtils.Truncate/Slice#%d", n)
				lo, hi := norm(linOf(call.Call.Args[0], env)), norm(linOf(call.Call.Args[1], env))
				L := norm(linAtom(lenAtom))
				goals := []struct {
					g    lin
					what string
				}{
					{lo.scale(-1), "low bound " + lo.String() + " >= 0"},
					{hi.add(L, -1), "high bound " + hi.String() + " <= length " + L.String()},
					{lo.add(hi, -1), "low bound " + lo.String() + " <= high bound " + hi.String()},
				}
				failed := ""
				for _, g := range goals {
					if !provable(g.g, facts) {
						failed = g.what
						break
					}
				}
				if failed == "" {
					c.ok(rule, key, call.Pos(), fmt.Sprintf("0 <= %s <= %s <= %s follows from the range checks that dominate the call", lo.String(), hi.String(), L.String()))
				} else {
					c.bad(rule, key, call.Pos(), "no dominating range check establishes "+failed+" (with End() == Start() + Len()): for some start/end the slice expression panics instead of Truncate returning its out-of-range error")
				}
			}
		}
	}
	analyse(fn, nil, nil, 0)
	if n == 0 {
		c.und(rule, "sequtils.Truncate/Slice", fn.Pos(), "no Slice call on the source's letters found")
	}
}

// ---- stalebuf (C07): the scratch column is rewritten for every column ----

// ruleStaleBuf: in AppendEach the scratch column handed to AppendColumns is
// (re)written for every row on every path through the row loop; a path that
// leaves an entry alone carries the previous column's letter over instead of
// the gap letter.
func ruleStaleBuf(c *Ctx, rule string, targets [][2]string) {
	for _, t := range targets {
		fn := c.fn(t[0], t[1])
		loops := naturalLoops(fn)
		key := funcName(fn) + "/scratch-column"
		var call *ssa.Call
		for _, b := range fn.Blocks {
			for _, ins := range b.Instrs {
				if cl, ok := ins.(*ssa.Call); ok {
					if sf := cl.Call.StaticCallee(); sf != nil && sf.Name() == "AppendColumns" {
						call = cl
					}
				}
			}
		}
		if call == nil {
			// AppendColumns inlined: the column is appended to the receiver's Seq directly
			for _, b := range fn.Blocks {
				for _, ins := range b.Instrs {
					cl, ok := ins.(*ssa.Call)
					if !ok || builtinCall(cl, "append") == nil || len(cl.Call.Args) != 2 {
						continue
					}
					ld, ok := cl.Call.Args[0].(*ssa.UnOp)
					if !ok {
						continue
					}
					if fa, ok := ld.X.(*ssa.FieldAddr); ok && fieldName(fa) == "Seq" && len(variadicValues(cl.Call.Args[1])) == 1 {
						inLoop := false
						for _, l := range loops {
							inLoop = inLoop || l.body[b]
						}
						if inLoop {
							call = cl
						}
					}
				}
			}
		}
		if call == nil {
			c.und(rule, key, fn.Pos(), "no AppendColumns call")
			continue
		}
		c.Funcs[funcName(fn)] = true
		vals := variadicValues(call.Call.Args[len(call.Call.Args)-1])
		if len(vals) != 1 {
			c.und(rule, key, call.Pos(), "AppendColumns is not called with one scratch column")
			continue
		}
		// a copy of the scratch column (append([]T(nil), b...)) stands for the scratch column
		if cp := builtinCall(vals[0], "append"); cp != nil && len(cp.Call.Args) == 2 && isNilConst(cp.Call.Args[0]) {
			vals[0] = cp.Call.Args[1]
		}
		// the web of values that are the scratch buffer
		S := map[ssa.Value]bool{vals[0]: true}
		for changed := true; changed; {
			changed = false
			add := func(v ssa.Value) {
				if v != nil && !S[v] {
					S[v] = true
					changed = true
				}
			}
			for v := range S {
				switch x := v.(type) {
				case *ssa.Phi:
					for _, e := range x.Edges {
						add(e)
					}
				case *ssa.Slice:
					add(x.X)
				case *ssa.Call:
					if builtinCall(x, "append") != nil {
						add(x.Call.Args[0])
					}
				}
				if refs := v.Referrers(); refs != nil {
					for _, r := range *refs {
						switch r := r.(type) {
						case *ssa.Call:
							if builtinCall(r, "append") != nil && r.Call.Args[0] == v {
								add(r)
							}
						case *ssa.Slice:
							if r.X == v {
								add(r)
							}
						case *ssa.Phi:
							add(r)
						}
					}
				}
			}
		}
		writes := map[*ssa.BasicBlock]bool{}
		for _, b := range fn.Blocks {
			for _, ins := range b.Instrs {
				switch x := ins.(type) {
				case *ssa.Call:
					if builtinCall(x, "append") != nil && S[x.Call.Args[0]] {
						writes[b] = true
					}
				case *ssa.Store:
					if ia, ok := x.Addr.(*ssa.IndexAddr); ok && S[ia.X] {
						writes[b] = true
					}
					if fa, ok := x.Addr.(*ssa.FieldAddr); ok {
						if ia, ok := fa.X.(*ssa.IndexAddr); ok && S[ia.X] {
							writes[b] = true
						}
					}
				}
			}
		}
		// the loop around the call, and the loops nested in it that write the buffer
		var outer *ssaLoop
		for _, l := range loops {
			if l.body[call.Block()] && (outer == nil || len(l.body) < len(outer.body)) {
				outer = l
			}
		}
		if outer == nil {
			c.und(rule, key, call.Pos(), "AppendColumns is not called in a loop")
			continue
		}
		nInner, nFull := 0, 0
		var badLoop *ssaLoop
		for _, l := range loops {
			if l == outer || !outer.body[l.head] {
				continue
			}
			has := false
			for b := range l.body {
				if writes[b] {
					has = true
				}
			}
			if !has {
				continue
			}
			nInner++
			// a cycle through the head that avoids every write?
			seen := map[*ssa.BasicBlock]bool{}
			var walk func(b *ssa.BasicBlock) bool
			walk = func(b *ssa.BasicBlock) bool {
				if b == l.head {
					return true
				}
				if !l.body[b] || writes[b] || seen[b] {
					return false
				}
				seen[b] = true
				for _, s := range b.Succs {
					if walk(s) {
						return true
					}
				}
				return false
			}
			skips := false
			if !writes[l.head] {
				for _, s := range l.head.Succs {
					if l.body[s] && walk(s) {
						skips = true
					}
				}
			}
			if skips {
				badLoop = l
			} else {
				nFull++
			}
		}
		if nFull > 0 {
			// one loop rewrites every entry in each column (e.g. a gap pre-fill); later
			// conditional overwrites cannot leave stale letters
			badLoop = nil
		}
		switch {
		case nInner == 0:
			c.und(rule, key, call.Pos(), "no row loop writing the scratch column was found inside the column loop")
		case badLoop != nil:
			c.bad(rule, key, badLoop.head.Instrs[0].Pos(), "some path through the row loop leaves the row's entry of the scratch column untouched: a run that has ended keeps the letter of the previous column instead of receiving the gap letter")
		default:
			c.ok(rule, key, call.Pos(), "every path through the row loop writes the row's entry of the scratch column before AppendColumns consumes it")
		}
	}
}

// ---- bordercover (C09/C08): border cells are initialised for every row and column ----

// inductionRange: idx == phi + a where phi is the counter of a loop whose
// header tests `phi + d < B`; the subscripts taken are [lo, hi).
func inductionRange(idx ssa.Value, loops []*ssaLoop) (lo int64, hi lin, ok bool) {
	phi, a, ok := linearIn(idx)
	if !ok {
		return 0, lin{}, false
	}
	var drive *ssaLoop
	for _, lp := range loops {
		if lp.head == phi.Block() {
			drive = lp
		}
	}
	if drive == nil {
		return 0, lin{}, false
	}
	ifi, ok := drive.head.Instrs[len(drive.head.Instrs)-1].(*ssa.If)
	if !ok {
		return 0, lin{}, false
	}
	bo, ok := ifi.Cond.(*ssa.BinOp)
	if !ok || bo.Op != token.LSS {
		return 0, lin{}, false
	}
	cphi, d, ok := linearIn(bo.X)
	if !ok || cphi != phi {
		return 0, lin{}, false
	}
	found := false
	var s0 int64
	step := false
	for i, p := range drive.head.Preds {
		if !drive.body[p] {
			if k, ok := constIntVal(phi.Edges[i]); ok {
				s0, found = k, true
			}
		} else {
			if q, inc, ok := linearIn(phi.Edges[i]); ok && q == phi && inc == 1 {
				step = true
			}
		}
	}
	if !found || !step {
		return 0, lin{}, false
	}
	B := linOf(bo.Y, nil)
	hi = B.add(linConst(a-d), 1)
	return s0 + a, hi, true
}

type cellRange struct {
	lo  int64
	hi  lin // exclusive
	pos token.Pos
}

// coverFrom1: the ranges, taken together, cover [1, bound).
func coverFrom1(rs []cellRange, bound lin) (bool, string) {
	sort.Slice(rs, func(i, j int) bool { return rs[i].lo < rs[j].lo })
	next := int64(1)
	for _, r := range rs {
		if r.lo > next {
			return false, fmt.Sprintf("index %d is not written (the next write starts at %d)", next, r.lo)
		}
		if r.hi.isConst() {
			if r.hi.k > next {
				next = r.hi.k
			}
			continue
		}
		if r.hi.equal(bound) {
			return true, ""
		}
		return false, "a loop runs up to " + r.hi.String() + " instead of " + bound.String()
	}
	return false, fmt.Sprintf("the writes stop at index %d, short of %s", next, bound.String())
}

// ruleBorderCover: the first row and first column of the DP table are the
// base cases of the recurrence. Where an aligner's gap model needs them
// initialised (global and fitted alignments), the cells written before the
// fill must cover columns 1..c-1 of row 0 and rows 1..r-1 of column 0
// without a hole; a cell left at its zero value lets an alignment open or
// extend a gap from it for free.
func ruleBorderCover(c *Ctx, rule string, fns []*ssa.Function, needRow, needCol map[string]bool) {
	for _, fn := range fns {
		var table *ssa.MakeSlice
		var rVal, cVal ssa.Value
		for _, b := range fn.Blocks {
			for _, ins := range b.Instrs {
				if mk, ok := ins.(*ssa.MakeSlice); ok {
					// r*c with two different dimensions (the flattened scoring matrix is let*let)
					if mul, ok := mk.Len.(*ssa.BinOp); ok && mul.Op == token.MUL && table == nil && mul.X != mul.Y {
						if _, isK := constIntVal(mul.X); !isK {
							if _, isK := constIntVal(mul.Y); !isK {
								table, rVal, cVal = mk, mul.X, mul.Y
							}
						}
					}
				}
			}
		}
		recvT := ""
		if len(fn.Params) > 0 {
			if n, ok := fn.Params[0].Type().(*types.Named); ok {
				recvT = n.Obj().Name()
			}
		}
		key := funcName(fn)
		if table == nil {
			c.und(rule, key+"/table", fn.Pos(), "no r*c table allocation found")
			continue
		}
		c.Funcs[funcName(fn)] = true
		loops := naturalLoops(fn)
		rL, cL := linOf(rVal, nil), linOf(cVal, nil)
		var row0, col0 []cellRange
		for _, b := range fn.Blocks {
			for _, ins := range b.Instrs {
				ia, ok := ins.(*ssa.IndexAddr)
				if !ok {
					continue
				}
				// the table itself, or a row view table[i*c:(i+1)*c] of it
				var rowLow ssa.Value
				if ia.X != ssa.Value(table) {
					sl, isSl := ia.X.(*ssa.Slice)
					if !isSl || sl.X != ssa.Value(table) || sl.Low == nil {
						continue
					}
					rowLow = sl.Low
				}
				written := false
				for _, r := range *ia.Referrers() {
					switch r := r.(type) {
					case *ssa.Store:
						written = written || r.Addr == ssa.Value(ia)
					case *ssa.IndexAddr:
						for _, rr := range *r.Referrers() {
							if st, ok := rr.(*ssa.Store); ok && st.Addr == ssa.Value(r) {
								written = true
							}
						}
					}
				}
				if !written {
					continue
				}
				idx := ia.Index
				if rowLow != nil {
					// element 0 of the view of row i is cell i*c: a first-column write
					if k, ok := constIntVal(idx); !ok || k != 0 {
						continue
					}
					idx = rowLow
				}
				if k, ok := constIntVal(idx); ok {
					row0 = append(row0, cellRange{k, linConst(k + 1), ia.Pos()})
					continue
				}
				if idx == cVal {
					col0 = append(col0, cellRange{1, linConst(2), ia.Pos()})
					continue
				}
				if mul, ok := idx.(*ssa.BinOp); ok && mul.Op == token.MUL {
					other := mul.X
					if mul.X == cVal {
						other = mul.Y
					} else if mul.Y != cVal {
						continue
					}
					if k, ok := constIntVal(other); ok {
						col0 = append(col0, cellRange{k, linConst(k + 1), ia.Pos()})
					} else if lo, hi, ok := inductionRange(other, loops); ok {
						col0 = append(col0, cellRange{lo, hi, ia.Pos()})
					} else {
						c.und(rule, key+"/first-column", ia.Pos(), "the rows written by this store could not be derived")
					}
					continue
				}
				// the first column walked by a flat offset: for p := c; p < len(table); p += c
				if phi, ok := idx.(*ssa.Phi); ok && len(phi.Edges) == 2 {
					var lp *ssaLoop
					for _, l := range loops {
						if l.head == phi.Block() {
							lp = l
						}
					}
					if lp != nil {
						fromC, stepC := false, false
						for i, pr := range phi.Block().Preds {
							e := phi.Edges[i]
							if !lp.body[pr] {
								fromC = e == cVal
							} else if bo, ok := e.(*ssa.BinOp); ok && bo.Op == token.ADD {
								stepC = (bo.X == ssa.Value(phi) && bo.Y == cVal) || (bo.Y == ssa.Value(phi) && bo.X == cVal)
							}
						}
						whole := false
						if ifi, ok := lp.head.Instrs[len(lp.head.Instrs)-1].(*ssa.If); ok {
							if bo, ok := ifi.Cond.(*ssa.BinOp); ok && bo.Op == token.LSS && bo.X == ssa.Value(phi) {
								if lc := builtinCall(bo.Y, "len"); lc != nil && lc.Call.Args[0] == ssa.Value(table) {
									whole = true
								} else if bo.Y == table.Len || linOf(bo.Y, nil).equal(linOf(table.Len, nil)) {
									whole = true
								}
							}
							// or the offset runs beside a row counter that the loop tests: for i, p := 1, c; i < r; i, p = i+1, p+c
							if bo, ok := ifi.Cond.(*ssa.BinOp); ok && bo.Op == token.LSS && !whole {
								if cnt, ok := bo.X.(*ssa.Phi); ok && cnt.Block() == lp.head && cnt != phi && (bo.Y == rVal || linOf(bo.Y, nil).equal(rL)) {
									from1, step1 := false, false
									for i, pr := range cnt.Block().Preds {
										e := cnt.Edges[i]
										if !lp.body[pr] {
											k, ok := constIntVal(e)
											from1 = ok && k == 1
										} else if q, inc, ok := linearIn(e); ok && q == cnt && inc == 1 {
											step1 = true
										}
									}
									whole = from1 && step1
								}
							}
						}
						if fromC && stepC && whole {
							col0 = append(col0, cellRange{1, rL, ia.Pos()})
							continue
						}
					}
				}
				if lo, hi, ok := inductionRange(idx, loops); ok {
					row0 = append(row0, cellRange{lo, hi, ia.Pos()})
				}
			}
		}
		check := func(what string, rs []cellRange, bound lin, need bool) {
			k := key + "/" + what
			switch {
			case len(rs) == 0 && !need:
				c.triv(rule, k, fn.Pos(), "this aligner leaves the "+what+" at zero (free start), nothing to cover")
			case len(rs) == 0:
				c.bad(rule, k, fn.Pos(), "the "+what+" of the table is never initialised although this gap model needs its base cases")
			default:
				if ok, why := coverFrom1(rs, bound); ok {
					c.ok(rule, k, rs[0].pos, fmt.Sprintf("the %d border writes cover indices 1..%s-1 of the %s without a hole", len(rs), bound.String(), what))
				} else {
					c.bad(rule, k, rs[0].pos, "the border writes do not cover the "+what+": "+why+"; that cell keeps its zero value, so a gap can be opened or extended from it without paying the penalty the recurrence assumes")
				}
			}
		}
		check("first-row", row0, cL, needRow[recvT])
		check("first-column", col0, rL, needCol[recvT])
	}
}

// ---- demandedbits (C10): k-mer word functions look at every letter of the word ----

// demandedBits computes, for every integer SSA value of fn, the bits of it
// that can influence anything the function returns, stores, compares,
// indexes with or passes on (a backward may-analysis in the style of LLVM's
// DemandedBits; masks, constant shifts, truncations and bitwise operators
// narrow the demand, everything else demands all bits up to the highest
// demanded one or simply all bits).
func demandedBits(fn *ssa.Function) map[ssa.Value]uint64 {
	D := map[ssa.Value]uint64{}
	var work []ssa.Value
	demand := func(v ssa.Value, m uint64) {
		if v == nil || m == 0 {
			return
		}
		if _, isK := v.(*ssa.Const); isK {
			return
		}
		if D[v]|m != D[v] {
			D[v] |= m
			work = append(work, v)
		}
	}
	const all = ^uint64(0)
	upTo := func(m uint64) uint64 {
		if m == 0 {
			return 0
		}
		h := uint(63)
		for m>>h == 0 {
			h--
		}
		if h == 63 {
			return all
		}
		return (uint64(1) << (h + 1)) - 1
	}
	width := func(t types.Type) uint64 {
		if b, ok := t.Underlying().(*types.Basic); ok {
			switch b.Kind() {
			case types.Int8, types.Uint8:
				return 0xff
			case types.Int16, types.Uint16:
				return 0xffff
			case types.Int32, types.Uint32:
				return 0xffffffff
			}
		}
		return all
	}
	// roots
	for _, b := range fn.Blocks {
		for _, ins := range b.Instrs {
			switch x := ins.(type) {
			case *ssa.Return:
				for _, r := range x.Results {
					demand(r, all)
				}
			case *ssa.Store:
				demand(x.Val, all)
			case *ssa.If:
				demand(x.Cond, all)
			case *ssa.IndexAddr:
				demand(x.Index, all)
			case *ssa.Index:
				demand(x.Index, all)
			case *ssa.Lookup:
				demand(x.Index, all)
			case *ssa.MakeSlice:
				demand(x.Len, all)
				demand(x.Cap, all)
			case *ssa.Slice:
				demand(x.Low, all)
				demand(x.High, all)
			case *ssa.MakeInterface:
				demand(x.X, all)
			case *ssa.Send:
				demand(x.X, all)
			case *ssa.MapUpdate:
				demand(x.Key, all)
				demand(x.Value, all)
			case *ssa.Panic:
				demand(x.X, all)
			case ssa.CallInstruction:
				for _, a := range x.Common().Args {
					demand(a, all)
				}
			}
		}
	}
	for len(work) > 0 {
		v := work[len(work)-1]
		work = work[:len(work)-1]
		d := D[v]
		switch x := v.(type) {
		case *ssa.Phi:
			for _, e := range x.Edges {
				demand(e, d)
			}
		case *ssa.Convert:
			if isIntegral(x.X.Type()) && isIntegral(x.Type()) {
				demand(x.X, d&width(x.Type())&width(x.X.Type()))
			} else {
				demand(x.X, all)
			}
		case *ssa.ChangeType:
			demand(x.X, d)
		case *ssa.UnOp:
			switch x.Op {
			case token.XOR:
				demand(x.X, d)
			case token.SUB:
				demand(x.X, upTo(d))
			default:
				demand(x.X, all)
			}
		case *ssa.BinOp:
			switch x.Op {
			case token.AND:
				if k, ok := constIntVal(x.Y); ok {
					demand(x.X, d&uint64(k))
				} else if k, ok := constIntVal(x.X); ok {
					demand(x.Y, d&uint64(k))
				} else {
					demand(x.X, d)
					demand(x.Y, d)
				}
			case token.AND_NOT:
				if k, ok := constIntVal(x.Y); ok {
					demand(x.X, d&^uint64(k))
				} else {
					demand(x.X, d)
					demand(x.Y, d)
				}
			case token.OR, token.XOR:
				demand(x.X, d)
				demand(x.Y, d)
			case token.SHR:
				if k, ok := constIntVal(x.Y); ok && k >= 0 && k < 64 {
					demand(x.X, (d<<uint(k))&width(x.X.Type()))
				} else {
					demand(x.X, all)
					demand(x.Y, all)
				}
			case token.SHL:
				if k, ok := constIntVal(x.Y); ok && k >= 0 && k < 64 {
					demand(x.X, (d&width(x.Type()))>>uint(k))
				} else {
					demand(x.X, all)
					demand(x.Y, all)
				}
			case token.ADD, token.SUB, token.MUL:
				demand(x.X, upTo(d&width(x.Type())))
				demand(x.Y, upTo(d&width(x.Type())))
			default:
				demand(x.X, all)
				demand(x.Y, all)
			}
		}
	}
	return D
}

// ruleDemandedBits: a function of a k-mer word (2 bits per letter, up to
// MaxKmerLen letters) whose result describes the whole k-mer must be able to
// see every letter: each of the low 2*MaxKmerLen bits of the parameter is
// demanded by the computation.
func ruleDemandedBits(c *Ctx, rule string) {
	p := c.pkg("index/kmerindex")
	sp := c.SPkgs[p.PkgPath]
	maxK := int64(0)
	switch k := p.Types.Scope().Lookup("MaxKmerLen").(type) {
	case *types.Const:
		maxK, _ = constant.Int64Val(constant.ToInt(k.Val()))
	case *types.Var:
		if init := pkgVarInit(p, k); init != nil {
			maxK, _ = constInt(p, init)
		}
	}
	if maxK <= 0 || maxK > 32 {
		c.und(rule, "kmerindex/MaxKmerLen", token.NoPos, "constant MaxKmerLen not found")
		return
	}
	want := uint64(1)<<uint(2*maxK) - 1
	for _, fn := range srcFuncs(sp) {
		if fn.Parent() != nil {
			continue
		}
		// the functions that describe a k-mer to a caller; a private step function that shifts a letter into
		// an accumulator (and lets the oldest letter fall off the top) is not one
		if fn.Object() == nil || !fn.Object().Exported() {
			continue
		}
		for _, prm := range fn.Params {
			if !isNamed(prm.Type(), p.PkgPath, "Kmer") {
				continue
			}
			if _, isPtr := prm.Type().(*types.Pointer); isPtr {
				continue
			}
			key := funcName(fn) + "/" + prm.Name()
			c.Funcs[funcName(fn)] = true
			// a pure forwarder (every use is an argument of a module call) is judged at the callee
			D := demandedBits(fn)
			got := D[prm] & want
			if got == want {
				c.ok(rule, key, fn.Pos(), fmt.Sprintf("all %d bits of the k-mer word (every letter for k up to %d) can influence the result", 2*maxK, maxK))
			} else {
				missing := want &^ got
				lo := 0
				for missing>>uint(lo)&1 == 0 {
					lo++
				}
				c.bad(rule, key, fn.Pos(), fmt.Sprintf("bits %#x of the k-mer word are never looked at (demanded bits %#x of %#x): letters from position %d (counted from the 3' end) cannot influence the result although k may be up to %d", missing, got, want, lo/2+1, maxK))
			}
		}
	}
}

// ---- minrange (C10): a sub-range of exactly k letters has one window ----

func ruleMinRange(c *Ctx, rule string) {
	fn := c.fn("index/kmerindex", "(*Index).ForEachKmerOf")
	c.Funcs[funcName(fn)] = true
	recv := fn.Params[0].Name()
	kAtom := recv + ".k"
	n := 0
	for _, b := range fn.Blocks {
		ifi, ok := b.Instrs[len(b.Instrs)-1].(*ssa.If)
		if !ok {
			continue
		}
		bo, ok := ifi.Cond.(*ssa.BinOp)
		if !ok {
			continue
		}
		for edge, succ := range b.Succs {
			if !rejectsFrom(b, succ) {
				continue
			}
			f, ok := strictForm(bo, edge, nil)
			if !ok {
				continue
			}
			if _, has := f.coef["end"]; !has {
				continue
			}
			// end := start + k + T
			g := f.subst("end", linAtom("start").add(linAtom(kAtom), 1).add(linAtom("T"), 1))
			onlyT := true
			for a := range g.coef {
				if a != "T" {
					onlyT = false
				}
			}
			if !onlyT {
				continue
			}
			n++
			key := fmt.Sprintf("%s/range-length-guard#%d", funcName(fn), n)
			if g.k < 0 && g.coef["T"] >= 0 {
				c.bad(rule, key, bo.Pos(), "the guard "+f.String()+" < 0 rejects a range with end-start == k (and every shorter one): a sub-range of exactly k letters holds one window, which is never visited")
			} else {
				c.ok(rule, key, bo.Pos(), "the range-length guard admits end-start == k")
			}
		}
	}
	if n == 0 {
		c.triv(rule, funcName(fn)+"/range-length-guard", fn.Pos(), "no guard rejects a range by its length: every range with a window reaches the loops")
	}
}

// rejects: the block leaves the function reporting an error (stores a
// non-nil value in a named error result or returns one) without any loop.
func rejects(b *ssa.BasicBlock) bool {
	var prev *ssa.BasicBlock
	if len(b.Preds) == 1 {
		prev = b.Preds[0]
	}
	return rejectsFrom(prev, b)
}

// rejectsFrom: the same, for the edge from prev to b (a joined result is judged by what that edge contributes).
func rejectsFrom(prev, b *ssa.BasicBlock) bool {
	seen := map[*ssa.BasicBlock]bool{}
	for ; b != nil && !seen[b]; prev, b = b, b.Succs[0] {
		seen[b] = true
		for _, ins := range b.Instrs {
			switch x := ins.(type) {
			case *ssa.Store:
				if al, ok := x.Addr.(*ssa.Alloc); ok && isErrorType(x.Val.Type()) && !isNilConst(x.Val) && al.Comment != "" {
					return true
				}
			case *ssa.Return:
				for _, r := range x.Results {
					// a result joined from several paths: what this path contributes
					if phi, ok := r.(*ssa.Phi); ok && phi.Block() == b && prev != nil {
						for i, p := range b.Preds {
							if p == prev {
								r = phi.Edges[i]
							}
						}
						if knownNilAt(prev, r) {
							continue
						}
					}
					if isErrorType(r.Type()) && !isNilConst(r) {
						if _, isLoad := r.(*ssa.UnOp); !isLoad {
							return true
						}
					}
				}
				return false
			case *ssa.Panic:
				return true
			}
		}
		if len(b.Succs) != 1 {
			return false
		}
	}
	return false
}

// knownNilAt: every path into blk (or blk's own branch towards its successor, for the block that tests it) has
// found v == nil.
func knownNilAt(blk *ssa.BasicBlock, v ssa.Value) bool {
	if isNilConst(v) {
		return true
	}
	for _, bf := range branchesAt(blk) {
		if bf.cond.X == v && isNilConst(bf.cond.Y) && effectiveOp(bf, true) == token.EQL {
			return true
		}
	}
	return false
}

func isErrorType(t types.Type) bool {
	n, ok := t.(*types.Named)
	return ok && n.Obj().Pkg() == nil && n.Obj().Name() == "error"
}

// ---- pendingeof (C04): fragments already accumulated are not lost at end of input ----

// rulePendingEOF: ReadLine hands a physical line that fills its buffer out in
// fragments (isPrefix) and reports the end of input separately, with no data.
// A final line without terminator whose length is a multiple of the buffer
// size therefore ends with fragments sitting in the accumulator when io.EOF
// arrives. On every path consistent with err == io.EOF the accumulator must
// be looked at before a record is returned; otherwise those letters are lost.
func rulePendingEOF(c *Ctx, rule string, shorts ...string) {
	keyN := map[string]int{}
	for _, call := range lineCalls(c, shorts, "ReadLine") {
		f := call.Parent()
		key := numberedKey(keyN, funcName(f)+"/ReadLine/pending-fragments")
		frag, errv := extractOf(call, 0), extractOf(call, 2)
		if frag == nil || errv == nil {
			c.und(rule, key, call.Pos(), "fragment or error result unused")
			continue
		}
		// the accumulator: append results fed by the fragment, and everything merged with or sliced from them
		acc := map[ssa.Value]bool{}
		var work []ssa.Value
		for _, r := range *frag.Referrers() {
			if ap, ok := r.(*ssa.Call); ok && builtinCall(ap, "append") != nil && len(ap.Call.Args) == 2 && ap.Call.Args[1] == ssa.Value(frag) {
				acc[ap] = true
				work = append(work, ap)
			}
		}
		for len(work) > 0 {
			v := work[0]
			work = work[1:]
			for _, r := range *v.Referrers() {
				if phi, ok := r.(*ssa.Phi); ok && !acc[phi] {
					acc[phi] = true
					work = append(work, phi)
				}
			}
		}
		if len(acc) == 0 {
			c.und(rule, key, call.Pos(), "the fragment is not accumulated by append")
			continue
		}
		var errAlloc ssa.Value
		for _, r := range *errv.Referrers() {
			if st, ok := r.(*ssa.Store); ok && st.Val == ssa.Value(errv) {
				errAlloc = st.Addr
			}
		}
		isErr := func(v ssa.Value, valid bool) bool {
			if v == ssa.Value(errv) {
				return true
			}
			if u, ok := v.(*ssa.UnOp); ok && u.Op == token.MUL && errAlloc != nil && u.X == errAlloc && valid {
				return true
			}
			return false
		}
		type state struct {
			b     *ssa.BasicBlock
			valid bool
		}
		seen := map[state]bool{}
		var leak *ssa.Return
		var walk func(b *ssa.BasicBlock, start int, valid bool)
		walk = func(b *ssa.BasicBlock, start int, valid bool) {
			if leak != nil {
				return
			}
			if start == 0 {
				st := state{b, valid}
				if seen[st] {
					return
				}
				seen[st] = true
			}
			for i := start; i < len(b.Instrs); i++ {
				ins := b.Instrs[i]
				if _, ok := ins.(*ssa.Phi); ok {
					continue
				}
				if _, ok := ins.(*ssa.DebugRef); ok {
					continue
				}
				if ins == ssa.Instruction(call) {
					return // the next read: nothing was returned on this path
				}
				for _, op := range ins.Operands(nil) {
					if *op != nil && acc[*op] {
						return // the accumulator is consulted on this path
					}
				}
				switch ins := ins.(type) {
				case *ssa.Store:
					if errAlloc != nil && ins.Addr == errAlloc && ins.Val != ssa.Value(errv) {
						valid = false
					}
				case *ssa.Return:
					if len(ins.Results) > 0 && !isNilConst(ins.Results[0]) {
						leak = ins
					}
					return
				case *ssa.If:
					take := []int{0, 1}
					if bo, ok := ins.Cond.(*ssa.BinOp); ok && (bo.Op == token.EQL || bo.Op == token.NEQ) {
						var other ssa.Value
						if isErr(bo.X, valid) {
							other = bo.Y
						} else if isErr(bo.Y, valid) {
							other = bo.X
						}
						if other != nil {
							switch {
							case isNilConst(other):
								if bo.Op == token.NEQ {
									take = []int{0}
								} else {
									take = []int{1}
								}
							case isGlobalLoad(other, "io", "EOF"):
								if bo.Op == token.EQL {
									take = []int{0}
								} else {
									take = []int{1}
								}
							}
						}
					}
					for _, t := range take {
						walk(b.Succs[t], 0, valid)
					}
					return
				case *ssa.Panic:
					return
				}
			}
			for _, s := range b.Succs {
				walk(s, 0, valid)
			}
		}
		idx := 0
		for i, ins := range call.Block().Instrs {
			if ins == ssa.Instruction(call) {
				idx = i + 1
			}
		}
		walk(call.Block(), idx, true)
		if leak != nil {
			c.bad(rule, key, call.Pos(), fmt.Sprintf("on the err == io.EOF path a record is returned at %s without the accumulated fragments being looked at: when the final line has no terminator and exactly fills ReadLine's buffer (a multiple of 4096 bytes), its letters are still pending in the accumulator and are dropped", c.pos(leak.Pos())))
		} else {
			c.ok(rule, key, call.Pos(), "every path consistent with err == io.EOF that returns a record has consulted the accumulated fragments")
		}
	}
}

// ---- convformula (C18): the two scale conversions are the analytic pair ----

// ruleConvFormula: error probabilities of the two scales are 10^(-Q/10) and
// 1/(1+10^(Q/10)), so Phred -> Solexa is 10*log10(10^(Q/10) - 1) and
// Solexa -> Phred is 10*log10(10^(Q/10) + 1). In the initialisers of the two
// conversion tables the argument of the logarithm must be the power term
// with the constant -1 (phredSolexaTable) and +1 (solexaPhredTable) added.
// A missing or mis-signed addend makes the conversion differ from the
// analytic value for low scores (where the two scales diverge).
func ruleConvFormula(c *Ctx, rule string) {
	p := c.pkg("alphabet")
	want := map[string]int64{"phredSolexaTable": -1, "solexaPhredTable": +1}
	for _, name := range []string{"phredSolexaTable", "solexaPhredTable"} {
		key := "alphabet." + name + "/log-argument"
		v, _ := p.Types.Scope().Lookup(name).(*types.Var)
		if v == nil {
			c.und(rule, key, token.NoPos, "table not found")
			continue
		}
		init := pkgVarInit(p, v)
		if init == nil {
			c.und(rule, key, v.Pos(), "no initialiser")
			continue
		}
		var logs []*ast.CallExpr
		ast.Inspect(init, func(n ast.Node) bool {
			if call, ok := n.(*ast.CallExpr); ok && isFunc(calleeOf(p, call), "math", "Log10") && len(call.Args) == 1 {
				logs = append(logs, call)
			}
			return true
		})
		if len(logs) != 1 {
			c.und(rule, key, init.Pos(), fmt.Sprintf("expected one math.Log10 call in the initialiser, found %d", len(logs)))
			continue
		}
		isPow := func(e ast.Expr) bool {
			call, ok := unparen(e).(*ast.CallExpr)
			if !ok || !isFunc(calleeOf(p, call), "math", "Pow") || len(call.Args) != 2 {
				return false
			}
			k, ok := constInt(p, call.Args[0])
			return ok && k == 10
		}
		arg := unparen(logs[0].Args[0])
		var addend int64
		recognised := false
		switch x := arg.(type) {
		case *ast.CallExpr:
			if isPow(x) {
				addend, recognised = 0, true
			}
		case *ast.BinaryExpr:
			if x.Op == token.ADD || x.Op == token.SUB {
				if k, ok := constInt(p, x.Y); ok && isPow(x.X) {
					addend, recognised = k, true
					if x.Op == token.SUB {
						addend = -k
					}
				} else if k, ok := constInt(p, x.X); ok && isPow(x.Y) && x.Op == token.ADD {
					addend, recognised = k, true
				}
			}
		}
		switch {
		case !recognised:
			c.und(rule, key, logs[0].Pos(), "the argument of the logarithm is not of the form math.Pow(10, x) ± constant")
		case addend == want[name]:
			c.ok(rule, key, logs[0].Pos(), fmt.Sprintf("the logarithm is taken of 10^(Q/10) %+d, the analytic conversion between the two error-probability definitions", addend))
		default:
			c.bad(rule, key, logs[0].Pos(), fmt.Sprintf("the logarithm is taken of 10^(Q/10) %+d instead of 10^(Q/10) %+d: the converted score is not the analytically converted value (the two scales differ by exactly this term, which matters for scores below about 10), so the conversion does not preserve the error probability and the two tables are not inverse to each other", addend, want[name]))
		}
	}
}

// ---- tableshift (C18): shifted score tables are filled and read with the same shift ----

// ruleTableShift: a score table indexed by score+shift (Solexa scores are
// negative) is filled by a loop that computes the entry for score q+a and
// stores it at index q+b; every lookup reads index score+c. The shifts must
// agree: b - a == c. Otherwise each score reads its neighbour's entry.
func ruleTableShift(c *Ctx, rule string, tables ...string) {
	p := c.pkg("alphabet")
	sp := c.SPkgs[p.PkgPath]
	initFn := sp.Func("init")
	for _, name := range tables {
		key := "alphabet." + name + "/shift"
		g, _ := sp.Members[name].(*ssa.Global)
		if g == nil || initFn == nil {
			c.und(rule, key, token.NoPos, "table not found")
			continue
		}
		var fill *ssa.Function
		for _, b := range initFn.Blocks {
			for _, ins := range b.Instrs {
				if st, ok := ins.(*ssa.Store); ok && st.Addr == ssa.Value(g) {
					if call, ok := st.Val.(*ssa.Call); ok {
						if f, ok := call.Call.Value.(*ssa.Function); ok {
							fill = f
						} else if mc, ok := call.Call.Value.(*ssa.MakeClosure); ok {
							fill, _ = mc.Fn.(*ssa.Function)
						}
					}
				}
			}
		}
		if fill == nil {
			c.und(rule, key, g.Pos(), "the table is not initialised by a function literal")
			continue
		}
		// the filling store
		var fillShift *int64
		var fillPos token.Pos
		for _, b := range fill.Blocks {
			for _, ins := range b.Instrs {
				st, ok := ins.(*ssa.Store)
				if !ok {
					continue
				}
				ia, ok := st.Addr.(*ssa.IndexAddr)
				if !ok {
					continue
				}
				phi, bOff, ok := linearIn(ia.Index)
				if !ok {
					continue
				}
				// the score the entry is computed for: an int -> float conversion of phi + a
				var aOff *int64
				seen := map[ssa.Value]bool{}
				var find func(v ssa.Value, d int)
				find = func(v ssa.Value, d int) {
					if v == nil || seen[v] || d > 14 || aOff != nil {
						return
					}
					seen[v] = true
					if cv, ok := v.(*ssa.Convert); ok && isIntegral(cv.X.Type()) && !isIntegral(cv.Type()) {
						if q, a, ok := linearIn(cv.X); ok && q == phi {
							aOff = &a
							return
						}
					}
					if ins, ok := v.(ssa.Instruction); ok {
						for _, op := range ins.Operands(nil) {
							if *op != nil {
								find(*op, d+1)
							}
						}
					}
				}
				find(st.Val, 0)
				if aOff == nil {
					continue
				}
				d := bOff - *aOff
				fillShift = &d
				fillPos = st.Pos()
			}
		}
		if fillShift == nil {
			c.und(rule, key, fill.Pos(), "no fill loop of the form t[q+b] = f(float(q+a)) found")
			continue
		}
		// lookups
		nLook := 0
		bad := ""
		var badPos token.Pos
		for _, f := range srcFuncs(sp) {
			if f == fill {
				continue
			}
			for _, b := range f.Blocks {
				for _, ins := range b.Instrs {
					ia, ok := ins.(*ssa.IndexAddr)
					if !ok || ia.X != ssa.Value(g) {
						continue
					}
					l := linOf(ia.Index, &linEnv{noInline: true})
					if _, viaHelper := ia.Index.(*ssa.Call); viaHelper {
						// the subscript is computed by a one-line helper of the module (solexaIndex(qs)): its expression;
						// a conversion between integer types of a score in -128..127 plus the shift is the same position
						// modulo the table size
						l = linOf(ia.Index, &linEnv{})
					}
					if len(l.coef) != 1 {
						continue
					}
					one := false
					for _, cf := range l.coef {
						one = cf == 1
					}
					if !one {
						continue
					}
					nLook++
					if l.k != *fillShift {
						bad = fmt.Sprintf("%s reads entry score%+d but the fill loop stores the entry for score s at index s%+d", funcName(f), l.k, *fillShift)
						badPos = ia.Pos()
					}
				}
			}
		}
		switch {
		case nLook == 0:
			c.und(rule, key, fillPos, "no lookup of the table by score found")
		case bad != "":
			c.bad(rule, key, badPos, bad+": every score reads a neighbouring score's value")
		default:
			c.ok(rule, key, fillPos, fmt.Sprintf("the fill loop stores the entry for score s at index s%+d and the %d lookup(s) read index score%+d", *fillShift, nLook, *fillShift))
		}
	}
}

// ---- windowpos (C10): the reported position is where the k-mer just completed begins ----

// ruleWindowPos: in the scanning loop of ForEachKmerOf the callback receives
// (position, kmer) after the letter at subscript B has been shifted into the
// word, so the word's letters are s.Seq[B-k+1 .. B]: position + k - 1 == B.
// Both counters advance by one per iteration, so the relation is decided from
// their initial values as symbolic linear forms.
// seqRead is one read of s.Seq[index] as seen from fn: made in fn itself, or in a closure of fn that is
// handed the position as an argument (shift(basePosition)).
type seqRead struct {
	blk   *ssa.BasicBlock
	index ssa.Value
}

func seqReadsOf(fn *ssa.Function) []seqRead {
	var out []seqRead
	isSeq := func(ia *ssa.IndexAddr) bool {
		ld, ok := ia.X.(*ssa.UnOp)
		if !ok || ld.Op != token.MUL {
			return false
		}
		fa, ok := ld.X.(*ssa.FieldAddr)
		return ok && structFieldName(fa.X.Type(), fa.Field) == "Seq"
	}
	for _, b := range fn.Blocks {
		for _, ins := range b.Instrs {
			if ia, ok := ins.(*ssa.IndexAddr); ok && isSeq(ia) {
				out = append(out, seqRead{b, ia.Index})
			}
		}
	}
	for _, an := range fn.AnonFuncs {
		for _, ab := range an.Blocks {
			for _, ai := range ab.Instrs {
				ia, ok := ai.(*ssa.IndexAddr)
				if !ok || !isSeq(ia) {
					continue
				}
				prm, ok := ia.Index.(*ssa.Parameter)
				if !ok {
					continue
				}
				pi := paramIndex(an, prm)
				for _, b := range fn.Blocks {
					for _, ins := range b.Instrs {
						call, ok := ins.(*ssa.Call)
						if !ok || call.Call.StaticCallee() != an || pi < 0 || pi >= len(call.Call.Args) {
							continue
						}
						out = append(out, seqRead{b, call.Call.Args[pi]})
					}
				}
			}
		}
	}
	return out
}

func ruleWindowPos(c *Ctx, rule string) {
	fn := c.fn("index/kmerindex", "(*Index).ForEachKmerOf")
	c.Funcs[funcName(fn)] = true
	key := funcName(fn) + "/reported-position"
	var cb *ssa.Parameter
	for _, p := range fn.Params {
		if _, ok := p.Type().Underlying().(*types.Signature); ok {
			cb = p
		}
	}
	var call *ssa.Call
	for _, b := range fn.Blocks {
		for _, ins := range b.Instrs {
			if cl, ok := ins.(*ssa.Call); ok && cb != nil && cl.Call.Value == ssa.Value(cb) && len(cl.Call.Args) == 3 {
				call = cl
			}
		}
	}
	if call == nil {
		c.und(rule, key, fn.Pos(), "the callback call was not found")
		return
	}
	env0 := &linEnv{noInline: true}
	P, aForm, ok := phiPlusForm(call.Call.Args[1], env0)
	if !ok {
		c.und(rule, key, call.Pos(), "the reported position is not a loop counter plus an offset")
		return
	}
	var loop *ssaLoop
	for _, l := range naturalLoops(fn) {
		if l.head == P.Block() {
			loop = l
		}
	}
	if loop == nil {
		c.und(rule, key, call.Pos(), "the reported position is not carried by the scanning loop")
		return
	}
	// the letter read in this iteration: s.Seq[B + r]
	var B *ssa.Phi
	var r int64
	for _, rd := range seqReadsOf(fn) {
		if !loop.body[rd.blk] {
			continue
		}
		if q, off, ok := linearIn(rd.index); ok && q.Block() == loop.head {
			B, r = q, off
		}
	}
	if B == nil {
		c.und(rule, key, call.Pos(), "no letter read s.Seq[counter] found in the scanning loop")
		return
	}
	initAndStep := func(phi *ssa.Phi) (ssa.Value, int64, bool) {
		var init ssa.Value
		step := int64(0)
		okStep := true
		for i, pred := range phi.Block().Preds {
			if loop.body[pred] {
				q, s, ok := linearIn(phi.Edges[i])
				if !ok || q != phi {
					okStep = false
				}
				step = s
			} else {
				init = phi.Edges[i]
			}
		}
		return init, step, okStep && init != nil
	}
	iP, sP, ok1 := initAndStep(P)
	iB, sB, ok2 := initAndStep(B)
	if !ok1 || !ok2 || sP != sB {
		c.bad(rule, key, call.Pos(), "the reported position and the subscript of the letter being read do not advance by the same amount on every path through the scanning loop (one of them is also moved by an inner loop or by a different step): after such a path position + k - 1 no longer equals the subscript of the last letter read, so every later occurrence is reported shifted and the last windows are never visited")
		return
	}
	env := &linEnv{noInline: true}
	kAtom := fn.Params[0].Name() + ".k"
	lhs := linOf(iP, env).add(aForm, 1).add(linConst(-1), 1).add(linAtom(kAtom), 1) // position + k - 1
	rhs := linOf(iB, env).add(linConst(r), 1)                                       // subscript of the letter just read
	d := lhs.add(rhs, -1)
	switch {
	case d.isConst() && d.k == 0:
		c.ok(rule, key, call.Pos(), "position + k - 1 equals the subscript of the letter just shifted into the word (initial values "+linOf(iP, env).String()+" and "+linOf(iB, env).String()+", equal steps)")
	case d.isConst():
		c.bad(rule, key, call.Pos(), fmt.Sprintf("the callback is given a position that is %+d away from where the k-mer it is given begins (position + k - 1 - last subscript read = %d): every reported occurrence is shifted", d.k, d.k))
	default:
		c.bad(rule, key, call.Pos(), "the reported position and the subscript of the last letter read differ by "+d.String()+", which is not zero: reported occurrences are not where the word occurs")
	}
}
