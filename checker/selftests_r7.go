package main

// Benign rewrites for the rules added after the seventh round of seeded
// changes (their fault direction is exercised by replaying the R7-* changes).
func init() {
	const (
		bed     = "io/featio/bed/bed.go"
		qaln    = "seq/alignment/qalignment.go"
		lett    = "alphabet/letters.go"
		utils   = "seq/sequtils/utils.go"
		multi   = "seq/multi/multi.go"
		swaL    = "align/sw_affine_letters.go"
		swaQ    = "align/sw_affine_qletters.go"
		kmer    = "index/kmerindex/kmerindex.go"
		piler   = "align/pals/piler.go"
		proc    = "concurrent/processor.go"
		morassF = "morass/morass.go"
	)
	add := func(prop string, vs ...variant) { selftests[prop] = append(selftests[prop], vs...) }

	add("C02",
		variant{Name: "benign-bed-parser-table-looked-up-per-call", File: bed, Find: "\tswitch r.BedType {\n\tcase 3:\n\t\tf, err = parseBed3(line)\n\tcase 4:\n\t\tf, err = parseBed4(line)\n\tcase 5:\n\t\tf, err = parseBed5(line)\n\tcase 6:\n\t\tf, err = parseBed6(line)\n\tcase 12:\n\t\tf, err = parseBed12(line)\n\tdefault:\n\t\treturn nil, ErrBadBedType\n\t}\n", Replace: "\tparse, ok := map[int]func([]byte) (feat.Feature, error){\n\t\t3:  func(l []byte) (feat.Feature, error) { return parseBed3(l) },\n\t\t4:  func(l []byte) (feat.Feature, error) { return parseBed4(l) },\n\t\t5:  func(l []byte) (feat.Feature, error) { return parseBed5(l) },\n\t\t6:  func(l []byte) (feat.Feature, error) { return parseBed6(l) },\n\t\t12: func(l []byte) (feat.Feature, error) { return parseBed12(l) },\n\t}[r.BedType]\n\tif !ok {\n\t\treturn nil, ErrBadBedType\n\t}\n\tf, err = parse(line)\n"},
	)
	add("C05",
		variant{Name: "benign-qrow-revcomp-condition-flipped", File: qaln, Find: "\ti, j := 0, len(rs)-1\n\tfor ; i < j; i, j = i+1, j-1 {\n\t\trs[i][r.Row].L, rs[j][r.Row].L = comp[rs[j][r.Row].L], comp[rs[i][r.Row].L]\n", Replace: "\ti, j := 0, len(rs)-1\n\tfor ; j > i; i, j = i+1, j-1 {\n\t\trs[i][r.Row].L, rs[j][r.Row].L = comp[rs[j][r.Row].L], comp[rs[i][r.Row].L]\n"},
	)
	add("C06",
		variant{Name: "benign-qletters-append-through-a-local", File: lett, Find: "func (ql QLetters) Append(src Slice) Slice     { return append(ql, src.(QLetters)...) }", Replace: "func (ql QLetters) Append(src Slice) Slice {\n\tout := append(ql, src.(QLetters)...)\n\treturn out\n}"},
		variant{Name: "benign-stitch-nothing-to-stitch-first", File: utils, Find: "\tvar l int\n\tfor _, f := range fsp {\n\t\tl += max(0, min(f.e, end)-max(f.s, offset))\n\t}\n\tt := sl.Make(0, l)\n", Replace: "\tif len(fsp) == 0 {\n\t\tdst.SetSlice(sl.Make(0, 0))\n\t\tif dst, ok := dst.(seq.ConformationSetter); ok {\n\t\t\tdst.SetConformation(feat.Linear)\n\t\t}\n\t\tdst.SetOffset(0)\n\t\treturn nil\n\t}\n\tvar l int\n\tfor _, f := range fsp {\n\t\tl += max(0, min(f.e, end)-max(f.s, offset))\n\t}\n\tt := sl.Make(0, l)\n"},
	)
	add("C07",
		variant{Name: "benign-append-each-skips-empty-run-but-counts-it", File: multi, Find: "\t\t} else {\n\t\t\tr.(seq.Appender).AppendQLetters(a[i]...)\n\t\t\ti++\n\t\t}\n", Replace: "\t\t} else {\n\t\t\tif len(a[i]) != 0 {\n\t\t\t\tr.(seq.Appender).AppendQLetters(a[i]...)\n\t\t\t}\n\t\t\ti++\n\t\t}\n"},
		variant{Name: "benign-flush-one-pass-without-continue", File: multi, Find: "\tif where&seq.End != 0 {\n\t\tend := m.End()\n\t\tfor _, r := range m.Seq {\n\t\t\tif end-r.End() < 1 {\n\t\t\t\tcontinue\n\t\t\t}\n\t\t\tr.(seq.Appender).AppendQLetters(alphabet.QLetter{L: fill}.Repeat(end - r.End())...)\n\t\t}\n\t}\n", Replace: "\tend := m.End()\n\tfor _, r := range m.Seq {\n\t\tif where&seq.End != 0 && end-r.End() >= 1 {\n\t\t\tr.(seq.Appender).AppendQLetters(alphabet.QLetter{L: fill}.Repeat(end - r.End())...)\n\t\t}\n\t}\n"},
	)
	add("C08",
		variant{Name: "benign-swaffine-matched-by-non-strict-comparisons", File: swaL, Find: "\t\t\tscore = max3(diagScore, upScore, leftScore)\n\t\t\tmatched := score == diagScore\n", Replace: "\t\t\tscore = max3(diagScore, upScore, leftScore)\n\t\t\tmatched := diagScore >= upScore && diagScore >= leftScore\n",
			More: []edit{{swaQ, "\t\t\tscore = max3(diagScore, upScore, leftScore)\n\t\t\tmatched := score == diagScore\n", "\t\t\tscore = max3(diagScore, upScore, leftScore)\n\t\t\tmatched := diagScore >= upScore && diagScore >= leftScore\n"}}},
	)
	add("C09",
		variant{Name: "benign-swaffine-score-reset-on-its-own-line", File: swaL, Find: "\tvar aln []feat.Pair\n\tscore, last, layer := 0, diag, diag\n\ti, j := maxI, maxJ\nloop:\n", Replace: "\tvar aln []feat.Pair\n\tlast, layer := diag, diag\n\tscore = 0\n\ti, j := maxI, maxJ\nloop:\n",
			More: []edit{{swaQ, "\tvar aln []feat.Pair\n\tscore, last, layer := 0, diag, diag\n\ti, j := maxI, maxJ\nloop:\n", "\tvar aln []feat.Pair\n\tlast, layer := diag, diag\n\tscore = 0\n\ti, j := maxI, maxJ\nloop:\n"}}},
	)
	add("C10",
		variant{Name: "benign-kmer-index-counted-loop", File: kmer, Find: "\tm := make(map[Kmer][]int)\n\n\tfor i := range ki.finger {\n\t\tif p, _ := ki.KmerPositions(Kmer(i)); len(p) > 0 {\n\t\t\tm[Kmer(i)] = p\n\t\t}\n\t}\n", Replace: "\tm := make(map[Kmer][]int)\n\n\tfor i := 0; i < len(ki.finger); i++ {\n\t\tif p, _ := ki.KmerPositions(Kmer(i)); len(p) > 0 {\n\t\t\tm[Kmer(i)] = p\n\t\t}\n\t}\n"},
	)
	add("C16",
		variant{Name: "benign-tree-lookup-in-a-helper", File: piler, Find: "\tt, ok := p.intervals[pi.location]\n\tif !ok {\n\t\tt = &interval.IntTree{}\n\t\tp.intervals[pi.location] = t\n\t}\n\tt.DoMatching(", Replace: "\tt := p.treeFor(pi.location)\n\tt.DoMatching(",
			More: []edit{{piler, "// merge merges an interval into the tree moving location meta data from the replaced intervals", "func (p *Piler) treeFor(loc feat.Feature) *interval.IntTree {\n\tif t, ok := p.intervals[loc]; ok {\n\t\treturn t\n\t}\n\tt := &interval.IntTree{}\n\tp.intervals[loc] = t\n\treturn t\n}\n\n// merge merges an interval into the tree moving location meta data from the replaced intervals"}}},
		variant{Name: "benign-image-located-in-the-filtering-loop-first", File: piler, Find: "\t\t\tfor _, im := range pa.images {\n\t\t\t\tif f != nil && !f(im.Pair) {\n\t\t\t\t\tcontinue\n\t\t\t\t}\n", Replace: "\t\t\tfor _, im := range pa.images {\n\t\t\t\tim.Loc = pa.pile\n\t\t\t\tif f != nil && !f(im.Pair) {\n\t\t\t\t\tcontinue\n\t\t\t\t}\n"},
	)
	add("C19",
		variant{Name: "benign-operate-helper-with-named-result", File: proc, Find: "\t\t\t\tv, e := input.Operation()\n\t\t\t\tif p.out != nil {\n\t\t\t\t\tp.out <- Result{v, e}\n\t\t\t\t}\n", Replace: "\t\t\t\tif p.out != nil {\n\t\t\t\t\tp.out <- operate(input)\n\t\t\t\t}\n",
			More: []edit{{proc, "// Submit values for processing.", "func operate(input Operator) (r Result) {\n\tdefer func() {\n\t\tif err := recover(); err != nil {\n\t\t\tr = Result{nil, fmt.Errorf(\"concurrent: processor panic: %v\", err)}\n\t\t}\n\t}()\n\tr.Value, r.Err = input.Operation()\n\treturn r\n}\n\n// Submit values for processing."}}},
	)
	add("C13",
		variant{Name: "benign-cleanup-error-in-a-local", File: morassF, Find: "func (m *Morass) CleanUp() error {\n\treturn os.RemoveAll(m.dir)\n}", Replace: "func (m *Morass) CleanUp() error {\n\tif err := os.RemoveAll(m.dir); err != nil {\n\t\treturn err\n\t}\n\treturn nil\n}"},
	)
}
