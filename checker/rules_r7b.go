// Rules added after the seventh round of seeded changes, second part (DESIGN §10.6).
package main

import (
	"fmt"
	"go/token"
	"go/types"
	"strings"

	"golang.org/x/tools/go/ssa"
)

// ---- checkperkmer (C10): Check decides per k-mer, not from a count ----

func ruleCheckPerKmer(c *Ctx, rule string) {
	fn := c.fn("index/kmerindex", "(*Index).Check")
	c.Funcs[funcName(fn)] = true
	key := "kmerindex.(*Index).Check/verdict-per-k-mer"
	// the variable behind the first result
	var okVar *ssa.Alloc
	for _, b := range fn.Blocks {
		for _, ins := range b.Instrs {
			if al, ok := ins.(*ssa.Alloc); ok && al.Comment == fn.Signature.Results().At(0).Name() && al.Comment != "" {
				okVar = al
			}
		}
	}
	why := ""
	if okVar == nil {
		why = "the verdict is not a variable the per-k-mer callback can clear"
	} else {
		// a callback stores false into it
		cleared := false
		for _, an := range fn.AnonFuncs {
			for i, fv := range an.FreeVars {
				bound := false
				for _, b := range fn.Blocks {
					for _, ins := range b.Instrs {
						if mc, ok := ins.(*ssa.MakeClosure); ok && mc.Fn == ssa.Value(an) && mc.Bindings[i] == ssa.Value(okVar) {
							bound = true
						}
					}
				}
				if !bound {
					continue
				}
				for _, b := range an.Blocks {
					for _, ins := range b.Instrs {
						if st, ok := ins.(*ssa.Store); ok && st.Addr == ssa.Value(fv) {
							if k, ok := st.Val.(*ssa.Const); ok && k.Value != nil && k.Value.String() == "false" {
								cleared = true
							}
						}
					}
				}
			}
		}
		if !cleared {
			why = "no callback clears the verdict for a k-mer that is not found at its position"
		}
		// the value returned is that variable
		for _, r := range returnsOf(fn) {
			if ld, ok := r.Results[0].(*ssa.UnOp); !ok || ld.X != ssa.Value(okVar) {
				why = "the verdict returned is computed at the end instead of being the per-k-mer flag"
			}
		}
	}
	if why != "" {
		c.bad(rule, key, fn.Pos(), why+": the position table is sized for the upper bound Len-k+1 and only windows without invalid letters are placed in it, so any verdict derived from counts reports a correct index of a sequence with an N as broken (or a broken one as correct)")
	} else {
		c.ok(rule, key, fn.Pos(), "the callback clears the verdict when a k-mer is not found at its position, and that flag is what is returned")
	}
}

// ---- allkmers (C10): enumerations of the k-mer space start at word 0 ----

func ruleAllKmers(c *Ctx, rule string) {
	pkg := modPath + "/index/kmerindex"
	sp := c.SPkgs[c.pkg("index/kmerindex").PkgPath]
	n := 0
	for _, fn := range srcFuncs(sp) {
		loops := naturalLoops(fn)
		for _, l := range loops {
			// a loop bounded by len(ki.finger) or by the largest word kMask, whose counter is (converted to) a Kmer
			bounded := false
			short := ""
			for _, bf := range headFact(l) {
				for i, side := range []ssa.Value{bf.cond.X, bf.cond.Y} {
					f := linOf(side, nil)
					for a := range f.coef {
						if strings.HasPrefix(a, "len(") && strings.HasSuffix(a, ".finger)") {
							bounded = true
						}
						if strings.HasSuffix(a, ".kMask") {
							bounded = true
							// counter < kMask stops one word early
							op := effectiveOp(bf, i == 1)
							if op == token.LSS && f.k <= 0 {
								short = "runs while the word is < kMask"
							}
						}
					}
				}
			}
			if !bounded {
				continue
			}
			for _, ins := range l.head.Instrs {
				phi, ok := ins.(*ssa.Phi)
				if !ok {
					break
				}
				asKmer := false
				var walk func(v ssa.Value, d int)
				walk = func(v ssa.Value, d int) {
					if d > 3 {
						return
					}
					for _, r := range *v.Referrers() {
						switch x := r.(type) {
						case *ssa.Convert:
							if isNamed(x.Type(), pkg, "Kmer") {
								asKmer = true
							}
						case *ssa.BinOp:
							if x.Op == token.ADD {
								walk(x, d+1)
							}
						}
					}
				}
				walk(phi, 0)
				if isNamed(phi.Type(), pkg, "Kmer") {
					asKmer = true
				}
				if !asKmer {
					continue
				}
				n++
				c.Funcs[funcName(fn)] = true
				key := fmt.Sprintf("%s/k-mer-space-loop#%d", funcName(fn), l.head.Index)
				// first value of the word: init (+1 for the hidden counter of a range loop)
				first := int64(-999)
				for i, p := range l.head.Preds {
					if !l.body[p] {
						if k, ok := constIntVal(phi.Edges[i]); ok {
							first = k
						}
					}
				}
				if phi.Comment == "rangeindex" {
					first++
				}
				if first == 0 && short == "" {
					c.ok(rule, key, phi.Pos(), "the enumeration starts at word 0 and runs to the last word")
				} else if first == 0 {
					c.bad(rule, key, phi.Pos(), "an enumeration of the k-mer space "+short+": kMask is itself a word — all 't' — and is never visited, so its positions are missing from the map although KmerPositions reports them")
				} else {
					c.bad(rule, key, phi.Pos(), fmt.Sprintf("an enumeration of the k-mer space (counter converted to Kmer, bounded by len(finger)) starts at %d, not 0: word 0 — all 'a' — is never visited, so its positions are missing from the map although KmerPositions reports them", first))
				}
			}
		}
	}
	if n == 0 {
		c.und(rule, "kmerindex/k-mer-space-loops", token.NoPos, "no enumeration of the k-mer space found")
	}
}

// ---- cleanupremoves (C13): CleanUp always tries to remove the directory ----

func ruleCleanUpRemoves(c *Ctx, rule string) {
	fn := c.fn("morass", "(*Morass).CleanUp")
	c.Funcs[funcName(fn)] = true
	key := "morass.(*Morass).CleanUp/RemoveAll-on-every-path"
	isRemove := func(i ssa.Instruction) bool {
		call, ok := i.(*ssa.Call)
		return ok && calleeIs(&call.Call, "os", "RemoveAll")
	}
	var bad *ssa.Return
	for _, r := range returnsOf(fn) {
		if !everyPathPasses(fn, r, viaCalls(isRemove), nil) {
			bad = r
		}
	}
	if bad != nil {
		c.bad(rule, key, bad.Pos(), "CleanUp can return at "+c.pos(bad.Pos())+" without having called os.RemoveAll on the temporary directory: once an earlier step fails (a run file already closed or removed behind the sorter's back) it fails on every later call as well, and the directory can never be removed through the API")
	} else {
		c.ok(rule, key, fn.Pos(), "every return has passed os.RemoveAll")
	}
}

// ---- scanalways (C14): the filter never reports success without scanning the query ----

func ruleScanAlways(c *Ctx, rule string) {
	fn := c.fn("align/pals/filter", "(*Filter).Filter")
	c.Funcs[funcName(fn)] = true
	key := "filter.(*Filter).Filter/scan-before-success"
	isScan := func(i ssa.Instruction) bool {
		call, ok := i.(*ssa.Call)
		if !ok {
			return false
		}
		sf := call.Call.StaticCallee()
		return sf != nil && sf.Name() == "ForEachKmerOf"
	}
	var bad *ssa.Return
	for _, r := range returnsOf(fn) {
		if maybeSuccess(r) && !everyPathPasses(fn, r, viaCalls(isScan), nil) {
			bad = r
		}
	}
	if bad != nil {
		c.bad(rule, key, bad.Pos(), "Filter can finish without an error of its own at "+c.pos(bad.Pos())+" before the query has been scanned: a shortcut for queries that are 'too short' has to compare like with like — the last k-mer start Len-k against a k-mer distance, a length against a length — and any query it wrongly covers yields no hits at all")
	} else {
		c.ok(rule, key, fn.Pos(), "every return that is not an error made on the spot follows the ForEachKmerOf scan")
	}
}

// ---- treefrommap (C16): the tree an interval is merged into is the one registered for its location ----

func ruleTreeFromMap(c *Ctx, rule string) {
	pkg := modPath + "/align/pals"
	fn := c.fn("align/pals", "(*Piler).merge")
	c.Funcs[funcName(fn)] = true
	key := "pals.(*Piler).merge/tree-looked-up-by-location"
	var why string
	var check func(v ssa.Value, d int)
	check = func(v ssa.Value, d int) {
		if d > 8 || why != "" {
			return
		}
		switch x := v.(type) {
		case *ssa.Phi:
			for _, e := range x.Edges {
				check(e, d+1)
			}
		case *ssa.Extract:
			check(x.Tuple, d+1)
		case *ssa.Lookup:
			if !loadOfField(x.X, pkg, "Piler", "intervals") {
				why = "a lookup in something other than p.intervals"
			}
		case *ssa.Alloc:
			// a new tree: must be registered in the map
			registered := false
			for _, r := range *x.Referrers() {
				if mu, ok := r.(*ssa.MapUpdate); ok && mu.Value == ssa.Value(x) && loadOfField(mu.Map, pkg, "Piler", "intervals") {
					registered = true
				}
			}
			if !registered {
				why = "a new tree that is not stored in p.intervals"
			}
		case *ssa.Call:
			sf := x.Call.StaticCallee()
			if sf == nil || sf.Pkg == nil || sf.Pkg.Pkg.Path() != pkg {
				why = "the result of a call outside the package"
				return
			}
			c.Funcs[funcName(sf)] = true
			for _, r := range returnsOf(sf) {
				check(r.Results[0], d+1)
			}
		case *ssa.UnOp:
			why = "a value remembered elsewhere (" + symName(x, &linEnv{allocAsName: true}) + ")"
		default:
			why = fmt.Sprintf("%T", v)
		}
	}
	n := 0
	for _, b := range fn.Blocks {
		for _, ins := range b.Instrs {
			call, ok := ins.(*ssa.Call)
			if !ok {
				continue
			}
			sf := call.Call.StaticCallee()
			if sf == nil || sf.Signature.Recv() == nil || !strings.HasSuffix(sf.Signature.Recv().Type().String(), "interval.IntTree") {
				continue
			}
			n++
			check(call.Call.Args[0], 0)
		}
	}
	switch {
	case n == 0:
		c.und(rule, key, fn.Pos(), "no interval tree operations")
	case why != "":
		c.bad(rule, key, fn.Pos(), "the tree that merge searches and updates is, on some path, "+why+" rather than the entry of p.intervals for the interval's location: a remembered tree that is not refreshed on every path is the previous location's tree, and features of one location are piled with another's")
	default:
		c.ok(rule, key, fn.Pos(), fmt.Sprintf("the receiver of all %d tree operations is p.intervals[location] or a new tree stored there", n))
	}
}

// ---- imagelocated (C16): every image is located on its pile, whatever the filter says ----

func ruleImageLocated(c *Ctx, rule string) {
	fn := c.fn("align/pals", "(*Piler).Piles")
	c.Funcs[funcName(fn)] = true
	key := "pals.(*Piler).Piles/every-image-located"
	n := 0
	var bad ssa.Instruction
	var visit func(f *ssa.Function)
	visit = func(f *ssa.Function) {
		loops := naturalLoops(f)
		for _, b := range f.Blocks {
			for _, ins := range b.Instrs {
				st, ok := ins.(*ssa.Store)
				if !ok {
					continue
				}
				fa, ok := st.Addr.(*ssa.FieldAddr)
				if !ok || fieldName(fa) != "Loc" || !strings.HasSuffix(typeString(fa.X.Type()), "Feature") {
					continue
				}
				n++
				// innermost loop holding the store
				var l *ssaLoop
				for _, x := range loops {
					if x.body[b] && (l == nil || len(x.body) < len(l.body)) {
						l = x
					}
				}
				if l == nil {
					continue
				}
				if !everyIterationPasses(l, func(i ssa.Instruction) bool { return i == ssa.Instruction(st) }) {
					bad = st
				}
			}
		}
	}
	// Piles itself, its function literals and the private helpers it hands the work to
	for _, f := range pkgReach(fn) {
		visit(f)
	}
	switch {
	case n == 0:
		c.und(rule, key, fn.Pos(), "no store of an image's location")
	case bad != nil:
		c.bad(rule, key, bad.Pos(), "the image's location is set to its pile only on some iterations of the loop over the images (a `continue` of the pair filter comes first): images of pairs the filter rejects stay located on the contig, so a filter that looks at the pile of a pair's mate sees a zero-length location, and features appear outside every pile")
	default:
		c.ok(rule, key, fn.Pos(), "every iteration over a pile's images stores the image's location")
	}
}

// ---- argreadonly (C17): constructors do not write through their arguments ----

func ruleArgReadOnly(c *Ctx, rule string) {
	sp := c.SPkgs[c.pkg("alphabet").PkgPath]
	n := 0
	for _, fn := range srcFuncs(sp) {
		if fn.Parent() != nil || fn.Signature.Recv() != nil || !strings.HasPrefix(fn.Name(), "New") {
			continue
		}
		for _, p := range fn.Params {
			switch p.Type().Underlying().(type) {
			case *types.Pointer, *types.Slice, *types.Map:
			default:
				continue
			}
			n++
			c.Funcs[funcName(fn)] = true
			key := funcName(fn) + "/" + p.Name() + "-not-written"
			var bad *ssa.Store
			for _, b := range fn.Blocks {
				for _, ins := range b.Instrs {
					st, ok := ins.(*ssa.Store)
					if !ok {
						continue
					}
					root := st.Addr
					for d := 0; d < 8; d++ {
						switch x := root.(type) {
						case *ssa.IndexAddr:
							root = x.X
							continue
						case *ssa.FieldAddr:
							root = x.X
							continue
						case *ssa.UnOp:
							root = x.X
							continue
						case *ssa.Slice:
							root = x.X
							continue
						}
						break
					}
					if root == ssa.Value(p) {
						bad = st
					}
				}
			}
			if bad != nil {
				c.bad(rule, key, bad.Pos(), "the constructor writes through its argument "+p.Name()+" at "+c.pos(bad.Pos())+": the caller's value — shared by every alphabet built from it — answers differently after the call, and tables derived from it earlier (the flagged complement table) are left describing the old contents, so method and table forms disagree")
			} else {
				c.ok(rule, key, fn.Pos(), "nothing is stored through the argument")
			}
		}
	}
	if n == 0 {
		c.und(rule, "alphabet/constructor-arguments", token.NoPos, "no reference-typed constructor arguments")
	}
}

// ---- recoverdelivers (C19): what a recover handler records reaches the caller ----

func ruleRecoverDelivers(c *Ctx, rule string) {
	sp := c.SPkgs[c.pkg("concurrent").PkgPath]
	n := 0
	for _, fn := range srcFuncs(sp) {
		if fn.Parent() == nil {
			continue
		}
		hasRecover := false
		for _, b := range fn.Blocks {
			for _, ins := range b.Instrs {
				if call, ok := ins.(*ssa.Call); ok {
					if bi, ok := call.Call.Value.(*ssa.Builtin); ok && bi.Name() == "recover" {
						hasRecover = true
					}
				}
			}
		}
		if !hasRecover {
			continue
		}
		parent := fn.Parent()
		// stores through captured variables
		for i, fv := range fn.FreeVars {
			stored := false
			for _, b := range fn.Blocks {
				for _, ins := range b.Instrs {
					if st, ok := ins.(*ssa.Store); ok {
						root := st.Addr
						for d := 0; d < 4; d++ {
							if fa, ok := root.(*ssa.FieldAddr); ok {
								root = fa.X
								continue
							}
							break
						}
						if root == ssa.Value(fv) {
							stored = true
						}
					}
				}
			}
			if !stored {
				continue
			}
			// the binding in the parent
			var bound ssa.Value
			for _, b := range parent.Blocks {
				for _, ins := range b.Instrs {
					if mc, ok := ins.(*ssa.MakeClosure); ok && mc.Fn == ssa.Value(fn) {
						bound = mc.Bindings[i]
					}
				}
			}
			al, ok := bound.(*ssa.Alloc)
			if !ok {
				continue
			}
			n++
			c.Funcs[funcName(parent)] = true
			key := funcName(parent) + "/recovered-value-in-" + al.Comment
			named := false
			res := parent.Signature.Results()
			for j := 0; j < res.Len(); j++ {
				if res.At(j).Name() != "" && res.At(j).Name() == al.Comment {
					named = true
				}
			}
			// a pointer to the variable escaping some other way (sent, stored) also delivers it
			if named {
				c.ok(rule, key, fn.Pos(), "the handler assigns to a named result, which is read after the deferred calls have run")
			} else {
				c.bad(rule, key, fn.Pos(), "the recover handler records the failure in the local variable "+al.Comment+", which is not a named result of "+funcName(parent)+": the value to return was copied out of it before the deferred handler ran, so the caller gets a result carrying neither the operation's value nor an error")
			}
		}
	}
	if n == 0 {
		c.triv(rule, "concurrent/recover-handlers", token.NoPos, "no recover handler records into a captured variable (they send on the result channel)")
	}
}

// ---- setflagused (C19): whether a promise is settled is what messageState says ----

func ruleSetFlagUsed(c *Ctx, rule string) {
	fn := c.fn("concurrent", "(*Promise).fulfill")
	c.Funcs[funcName(fn)] = true
	key := "concurrent.(*Promise).fulfill/settled-flag-decides"
	n := 0
	used := false
	for _, b := range fn.Blocks {
		for _, ins := range b.Instrs {
			call, ok := ins.(*ssa.Call)
			if !ok {
				continue
			}
			sf := call.Call.StaticCallee()
			if sf == nil || sf.Name() != "messageState" {
				continue
			}
			n++
			if ex := extractOf(call, 1); ex != nil {
				for _, r := range *ex.Referrers() {
					switch x := r.(type) {
					case *ssa.If:
						used = true
					case *ssa.UnOp:
						for _, rr := range *x.Referrers() {
							if _, ok := rr.(*ssa.If); ok {
								used = true
							}
						}
					case *ssa.Phi:
						used = true
					}
				}
			}
		}
	}
	switch {
	case n == 0:
		c.und(rule, key, fn.Pos(), "fulfill does not consult messageState")
	case !used:
		c.bad(rule, key, fn.Pos(), "fulfill does not branch on the settled flag that messageState returns: any test on the message's contents takes a promise fulfilled with a nil value for an unsettled one, so a second Fulfill of an immutable promise succeeds and waiters before and after it see different values")
	default:
		c.ok(rule, key, fn.Pos(), "the settled flag of messageState decides whether the value may be set")
	}
}

// ---- exonsfrombuilder (C20): a transcript stores the exon set the builder returned ----

func ruleExonsFromBuilder(c *Ctx, rule string) {
	pkg := modPath + "/feat/gene"
	sp := c.SPkgs[c.pkg("feat/gene").PkgPath]
	n := 0
	for _, fn := range srcFuncs(sp) {
		if fn.Name() != "SetExons" {
			continue
		}
		for _, b := range fn.Blocks {
			for _, ins := range b.Instrs {
				st, ok := ins.(*ssa.Store)
				if !ok {
					continue
				}
				fa, ok := st.Addr.(*ssa.FieldAddr)
				if !ok || fieldName(fa) != "exons" {
					continue
				}
				n++
				c.Funcs[funcName(fn)] = true
				key := funcName(fn) + "/stores-the-built-set"
				v := st.Val
				for d := 0; d < 4; d++ {
					switch x := v.(type) {
					case *ssa.ChangeType:
						v = x.X
						continue
					case *ssa.Convert:
						v = x.X
						continue
					}
					break
				}
				good := false
				if ex, ok := v.(*ssa.Extract); ok && ex.Index == 0 {
					if call, ok := ex.Tuple.(*ssa.Call); ok {
						if sf := call.Call.StaticCallee(); sf != nil && sf.Pkg != nil && sf.Pkg.Pkg.Path() == pkg {
							good = true
						}
					}
				}
				if good {
					c.ok(rule, key, st.Pos(), "the stored exons are the first result of the builder")
				} else {
					c.bad(rule, key, st.Pos(), "the value stored as the transcript's exons is "+symName(v, nil)+", not the set the builder returned: the builder's result is the sorted private copy; the caller's own slice is unsorted (exons listed last-to-first give Len() of the first one listed) and stays shared with the caller")
				}
			}
		}
	}
	if n == 0 {
		c.und(rule, "gene/SetExons", token.NoPos, "no SetExons method stores an exon set")
	}
}

// ---- writertakes (C12): a started writer always takes the buffer handed to it ----

func ruleWriterTakes(c *Ctx, rule string) {
	pkg := modPath + "/morass"
	fn := c.fn("morass", "(*Morass).write")
	c.Funcs[funcName(fn)] = true
	key := "morass.(*Morass).write/receives-before-any-return"
	isRecv := func(i ssa.Instruction) bool {
		switch x := i.(type) {
		case *ssa.UnOp:
			return x.Op == token.ARROW && loadOfField(x.X, pkg, "Morass", "writable")
		case *ssa.Select:
			for _, st := range x.States {
				if st.Dir == types.RecvOnly && loadOfField(st.Chan, pkg, "Morass", "writable") {
					return true
				}
			}
		}
		return false
	}
	var bad *ssa.Return
	for _, r := range returnsOf(fn) {
		if !everyPathPasses(fn, r, viaCalls(isRecv), nil) {
			bad = r
		}
	}
	if bad != nil {
		c.bad(rule, key, bad.Pos(), "the writer can return at "+c.pos(bad.Pos())+" without having received from m.writable: every call of write is paired with one buffer sent on that one-slot channel (by Push before `go m.write()`, by Finalise before the synchronous call), so a writer that gives up first leaves the buffer in the channel and out of the pool — the failed cycle still reports its error, but after Clear the next hand-off blocks forever")
	} else {
		c.ok(rule, key, fn.Pos(), "every return follows the receive of the run buffer")
	}
}

// ---- collectorfirst (C15): hits are collected while the kernel produces them ----

func ruleCollectorFirst(c *Ctx, rule string) {
	fn := c.fn("align/pals/dp", "(*Aligner).AlignTraps")
	c.Funcs[funcName(fn)] = true
	key := "dp.(*Aligner).AlignTraps/collector-started-before-the-kernel-runs"
	// goroutines of this function that receive from a channel
	var collector *ssa.Go
	for _, b := range fn.Blocks {
		for _, ins := range b.Instrs {
			g, ok := ins.(*ssa.Go)
			if !ok {
				continue
			}
			mc, ok := g.Call.Value.(*ssa.MakeClosure)
			if !ok {
				continue
			}
			body := mc.Fn.(*ssa.Function)
			for _, bb := range body.Blocks {
				for _, i2 := range bb.Instrs {
					if u, ok := i2.(*ssa.UnOp); ok && u.Op == token.ARROW {
						if _, isChanOfHit := u.X.Type().Underlying().(*types.Chan); isChanOfHit {
							collector = g
						}
					}
				}
			}
		}
	}
	// calls of kernel methods (the producers)
	var producers []*ssa.Call
	for _, b := range fn.Blocks {
		for _, ins := range b.Instrs {
			if call, ok := ins.(*ssa.Call); ok {
				if sf := call.Call.StaticCallee(); sf != nil && sf.Signature.Recv() != nil && strings.HasSuffix(sf.Signature.Recv().Type().String(), "dp.kernel") {
					producers = append(producers, call)
				}
			}
		}
	}
	switch {
	case len(producers) == 0:
		c.und(rule, key, fn.Pos(), "no kernel call found")
	case collector == nil:
		c.bad(rule, key, producers[0].Pos(), "no goroutine receives the kernel's hits while the kernel runs: the kernel sends every hit on its result channel from inside the recursion, so without a concurrent collector the channel's capacity is a guess at the number of hits — one trapezoid that the recursion splits into more pieces than there is room for blocks the send, and Align never returns")
	default:
		ok := true
		for _, p := range producers {
			if !(collector.Block().Dominates(p.Block()) && (collector.Block() != p.Block() || instrIndex(p.Block(), collector) < instrIndex(p.Block(), p))) {
				ok = false
			}
		}
		if ok {
			c.ok(rule, key, collector.Pos(), fmt.Sprintf("the collecting goroutine is started before all %d kernel calls", len(producers)))
		} else {
			c.bad(rule, key, collector.Pos(), "a kernel call can run before the collecting goroutine has been started")
		}
	}
}

// ---- pullerror (C15): a failed read of the sorted hits is not taken for their end ----

func rulePullError(c *Ctx, rule string) {
	fn := c.fn("align/pals", "(*PALS).Align")
	c.Funcs[funcName(fn)] = true
	n := 0
	for _, pf := range privateReach(fn) {
		for _, b := range pf.Blocks {
			for _, ins := range b.Instrs {
				call, ok := ins.(*ssa.Call)
				if !ok {
					continue
				}
				sf := call.Call.StaticCallee()
				if sf == nil || sf.Name() != "Pull" || !strings.HasSuffix(funcName(sf), "Morass).Pull") {
					continue
				}
				n++
				key := fmt.Sprintf("pals.(*PALS).Align/morass.Pull#%d", n)
				if errorSinks(call, nil) {
					c.ok(rule, key, call.Pos(), "the error of Pull reaches a return")
				} else {
					c.bad(rule, key, call.Pos(), "the error of morass.Pull is only tested, never returned: io.EOF and a failed read of a run file both end the loop, the hits after the failing record are dropped, and Align reports success with fewer (or no) alignments")
				}
			}
		}
	}
	if n == 0 {
		c.und(rule, "pals.(*PALS).Align/morass.Pull", fn.Pos(), "no Pull call")
	}
}

// ---- selfstrand (C15): the main-diagonal restriction of self-comparison is for the direct strand only ----

func ruleSelfStrand(c *Ctx, rule string) {
	fn := c.fn("align/pals", "(*PALS).Align")
	c.Funcs[funcName(fn)] = true
	key := "pals.(*PALS).Align/merger-self-flag-per-strand"
	complement := fn.Params[1]
	n := 0
	for _, pf := range privateReach(fn) {
		for _, b := range pf.Blocks {
			for _, ins := range b.Instrs {
				call, ok := ins.(*ssa.Call)
				if !ok {
					continue
				}
				sf := call.Call.StaticCallee()
				if sf == nil || sf.Name() != "NewMerger" {
					continue
				}
				n++
				c.Funcs[funcName(pf)] = true
				arg := call.Call.Args[len(call.Call.Args)-1]
				// does the flag depend on the strand?
				depends := false
				var walk func(v ssa.Value, d int)
				walk = func(v ssa.Value, d int) {
					if d > 5 {
						return
					}
					v = callerArg(v, fn) // a helper's parameter stands for what Align passes
					if v == ssa.Value(complement) {
						depends = true
						return
					}
					switch x := v.(type) {
					case *ssa.Phi:
						for _, e := range x.Edges {
							walk(e, d+1)
						}
						// a && b lowers to a phi selected by a branch on a
						for _, p := range x.Block().Preds {
							if ifi, ok := p.Instrs[len(p.Instrs)-1].(*ssa.If); ok {
								walk(ifi.Cond, d+1)
							}
						}
					case *ssa.UnOp:
						if x.Op == token.NOT {
							walk(x.X, d+1)
						}
					case *ssa.BinOp:
						walk(x.X, d+1)
						walk(x.Y, d+1)
					}
				}
				walk(arg, 0)
				if depends {
					c.ok(rule, key, call.Pos(), "the self-comparison flag handed to the merger depends on the strand")
				} else {
					c.bad(rule, key, call.Pos(), "the merger is told to drop hits on or below the main diagonal on both strands: against the reverse complement the comparison is symmetric about the anti-diagonal and the filter has already dropped that half, so the main-diagonal test discards every inverted repeat whose copies lie at a, b with a+b > len-l — the complement-strand search of a self-comparison finds about half of them")
				}
			}
		}
	}
	if n == 0 {
		c.und(rule, key, fn.Pos(), "no NewMerger call")
	}
}
