package main

import (
	"bytes"
	"go/ast"
	"go/constant"
	"go/printer"
	"go/token"
	"go/types"

	"golang.org/x/tools/go/packages"
	"golang.org/x/tools/go/types/typeutil"
)

func unparen(e ast.Expr) ast.Expr {
	for {
		p, ok := e.(*ast.ParenExpr)
		if !ok {
			return e
		}
		e = p.X
	}
}

func constOf(p *packages.Package, e ast.Expr) constant.Value {
	if tv, ok := p.TypesInfo.Types[e]; ok {
		return tv.Value
	}
	return nil
}

func constInt(p *packages.Package, e ast.Expr) (int64, bool) {
	v := constOf(p, e)
	if v == nil {
		return 0, false
	}
	v = constant.ToInt(v)
	if v.Kind() != constant.Int {
		return 0, false
	}
	return constant.Int64Val(v)
}

func constStr(p *packages.Package, e ast.Expr) (string, bool) {
	if e == nil {
		return "", false
	}
	v := constOf(p, e)
	if v == nil || v.Kind() != constant.String {
		return "", false
	}
	return constant.StringVal(v), true
}

func calleeOf(p *packages.Package, call *ast.CallExpr) types.Object {
	return typeutil.Callee(p.TypesInfo, call)
}

// isFunc reports whether o is the function pkgpath.name (or method recv.name
// when name contains a dot handled by the caller through types.Func.FullName).
func isFunc(o types.Object, pkgpath, name string) bool {
	f, ok := o.(*types.Func)
	if !ok || f.Pkg() == nil {
		return false
	}
	return f.Pkg().Path() == pkgpath && f.Name() == name && f.Type().(*types.Signature).Recv() == nil
}

// isMethod reports whether o is a method named name whose receiver's named
// type (after pointer removal) is pkgpath.typ.
func isMethod(o types.Object, pkgpath, typ, name string) bool {
	f, ok := o.(*types.Func)
	if !ok || f.Name() != name {
		return false
	}
	sig := f.Type().(*types.Signature)
	if sig.Recv() == nil {
		return false
	}
	return isNamed(sig.Recv().Type(), pkgpath, typ)
}

func isNamed(t types.Type, pkgpath, name string) bool {
	if p, ok := t.(*types.Pointer); ok {
		t = p.Elem()
	}
	n, ok := t.(*types.Named)
	if !ok {
		return false
	}
	o := n.Obj()
	if o.Name() != name {
		return false
	}
	if o.Pkg() == nil {
		return pkgpath == ""
	}
	return o.Pkg().Path() == pkgpath
}

func exprStr(fset *token.FileSet, n ast.Node) string {
	var b bytes.Buffer
	printer.Fprint(&b, fset, n)
	return b.String()
}

// objOf returns the object an identifier or selector denotes.
func objOf(p *packages.Package, e ast.Expr) types.Object {
	switch e := unparen(e).(type) {
	case *ast.Ident:
		if o := p.TypesInfo.Uses[e]; o != nil {
			return o
		}
		return p.TypesInfo.Defs[e]
	case *ast.SelectorExpr:
		if s := p.TypesInfo.Selections[e]; s != nil {
			return s.Obj()
		}
		return p.TypesInfo.Uses[e.Sel]
	}
	return nil
}

// pkgVarInit returns the initialiser of a package-level variable.
func pkgVarInit(p *packages.Package, v types.Object) ast.Expr {
	for _, f := range p.Syntax {
		for _, d := range f.Decls {
			gd, ok := d.(*ast.GenDecl)
			if !ok || gd.Tok != token.VAR {
				continue
			}
			for _, s := range gd.Specs {
				vs := s.(*ast.ValueSpec)
				for i, n := range vs.Names {
					if p.TypesInfo.Defs[n] == v && len(vs.Values) == len(vs.Names) {
						return vs.Values[i]
					}
				}
			}
		}
	}
	return nil
}
